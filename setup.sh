#!/bin/sh
# offline setup: nothing to install; byte-compile check and engine self-tests
set -e
cd "$(dirname "$0")"
export PYTHONPATH="$PWD:${ZV_REPO:-/repo}/src"
export PYTHONDONTWRITEBYTECODE=1
/venv/bin/python -m zv.selftest
