#!/bin/sh
# tools/commit.sh <message> : commit /verif only if every evidence file is a clean record of a run on the unchanged tree
cd "$(dirname "$0")/.."
if [ -n "$(git -C /repo status --short)" ]; then echo "REFUSED: /repo has uncommitted changes"; exit 1; fi
bad=$(/venv/bin/python - <<'PY'
import json, glob
for f in sorted(glob.glob('evidence/C*.json')):
    e = json.load(open(f))
    c = e['coverage']
    if e.get('violations') or c.get('inconclusive_reasons') or c['distinct_nontrivial'] < 2:
        print(f, 'violations=%s' % e.get('violations'), c.get('inconclusive_reasons'), c['distinct_nontrivial'])
PY
)
if [ -n "$bad" ]; then echo "REFUSED: evidence not clean:"; echo "$bad"; exit 1; fi
PYTHONPATH=/verif:/repo/src /venv/bin/python -m zv.mkmanifest >/dev/null
git add -A && git commit -qm "$1" && echo committed
