#!/bin/sh
# tools/sweep_ids.sh <tier> <seed> <ID...> : like sweep.sh for the named checks only, in the order given
tier=$1; seed=$2; shift 2
cd "$(dirname "$0")/.."
for id in "$@"; do
  out=$(VERIF_SEED=$seed ./check $id $tier 2>&1); rc=$?
  echo "$id seed=$seed rc=$rc $(echo "$out" | grep -m1 'wall=' | sed 's/.*evaluations/evaluations/')"
  if [ $rc -ne 0 ]; then echo "ALARM $id seed=$seed rc=$rc"; echo "$out" | grep "witness\|INCONCLUSIVE" | cut -c1-400 | head -3; fi
done
echo "sweep done: tier=$tier seed=$seed ids=$*"
