#!/venv/bin/python
"""tools/strengthened.py <seed dir name> <CAUGHT:Cxx:mechanism[,...]> <what was strengthened>: record in seeded/<name>/meta.json that
a seed the checks had missed is caught after strengthening (same fields as the earlier rounds: confirmed.after_strengthening)"""
import json, sys
name, result, what = sys.argv[1:4]
p = '/verif/seeded/%s/meta.json' % name
m = json.load(open(p))
m.pop('after_strengthening', None)
m.pop('what_was_strengthened', None)
m['confirmed']['after_strengthening'] = result.split(',')
m['confirmed']['what_was_strengthened'] = what
json.dump(m, open(p, 'w'), indent=1)
print('recorded', name)
