"""python tools/mkmut.py <name> <file> <old> <new> : create mutants/<name>.diff from a single textual replacement in /repo"""
import subprocess, sys
name, path, old, new = sys.argv[1:5]
p = '/repo/' + path
s = open(p).read()
if old not in s:
    print('OLD TEXT NOT FOUND', name); sys.exit(1)
open(p, 'w').write(s.replace(old, new, 1))
d = subprocess.run(['git', '-C', '/repo', 'diff'], capture_output=True, text=True).stdout
open('/verif/mutants/%s.diff' % name, 'w').write(d)
subprocess.run(['git', '-C', '/repo', 'checkout', '--', '.'])
print('made', name, len(d))
