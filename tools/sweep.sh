#!/bin/sh
# tools/sweep.sh <tier> <seed...> : run every claimed check for each seed; print one line per alarm
tier=$1; shift
cd "$(dirname "$0")/.."
for seed in "$@"; do
  for id in $(/venv/bin/python -c "import json;print(' '.join(c['property_id'] for c in json.load(open('MANIFEST.json'))['checks']))"); do
    out=$(VERIF_SEED=$seed ./check $id $tier 2>&1); rc=$?
    if [ $rc -ne 0 ]; then echo "ALARM $id seed=$seed rc=$rc"; echo "$out" | grep "witness\|INCONCLUSIVE" | cut -c1-400 | head -3; fi
  done
done
echo "sweep done: tier=$tier seeds=$*"
