"""print the markdown table of seeded changes (seeded/*/meta.json) for DESIGN.md section 12"""
import glob, json, os
rows = []
for p in sorted(glob.glob('/verif/seeded/*/meta.json')):
    m = json.load(open(p))
    name = os.path.basename(os.path.dirname(p))
    c = m.get('confirmed', {})
    first = c.get('first_run') or c.get('checks') or []
    after = c.get('after_strengthening')
    def fmt(lst):
        out = []
        for x in lst:
            parts = x.split(':', 2)
            out.append('%s %s%s' % (parts[1], 'caught' if parts[0] == 'CAUGHT' else parts[0].lower(), (' (`%s`)' % parts[2]) if len(parts) > 2 and parts[2] else ''))
        return '; '.join(out)
    res = fmt(first)
    if after:
        res = 'first run: ' + res + ' -> **after strengthening**: ' + fmt(after) + ' - ' + c.get('what_was_strengthened', '')
    rows.append('| %s | %s | %s | %s |' % (name, (m.get('summary') or '').replace('|', '/')[:260], (m.get('needs') or '').replace('|', '/')[:200], res.replace('|', '/')))
print('| seeded change | what it does | what it needs | result (quick tier, seed 0) |')
print('|---|---|---|---|')
print('\n'.join(rows))
