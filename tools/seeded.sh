#!/bin/sh
# tools/seeded.sh <ID> <worktree> [extra check ids...] : confirm an independently written breaking change and run the checks against it
id=$1; wt=$2; shift 2
dst=/verif/seeded/${DSTNAME:-$id}
mkdir -p $dst
cp $wt/seed/patch.diff $wt/seed/demo.py $wt/seed/meta.json $dst/ 2>/dev/null || { echo "seed files missing in $wt/seed"; exit 2; }
cd $wt || exit 2
git stash -q 2>/dev/null; git stash drop -q 2>/dev/null     # start from a clean tree, then apply exactly the delivered patch
git checkout -q -- . 2>/dev/null
if ! git apply --check $dst/patch.diff; then echo "PATCH DOES NOT APPLY"; exit 2; fi
PYTHONPATH=$wt/src /venv/bin/python $dst/demo.py > $dst/demo_without.out 2>&1; rc0=$?
git apply $dst/patch.diff
PYTHONPATH=$wt/src /venv/bin/python $dst/demo.py > $dst/demo_with.out 2>&1; rc1=$?
tests=$(cd $wt && PYTHONPATH=$wt/src timeout 900 /venv/bin/python -m pytest -q -p no:cacheprovider --timeout=900 2>&1 | tail -1)
git checkout -q -- .
echo "demo without patch rc=$rc0 ; with patch rc=$rc1 ; pinned tests with patch: $tests"
# now the checks, against /repo itself
cd /repo && git apply $dst/patch.diff || { echo "patch does not apply to /repo"; exit 2; }
# evidence files must only ever come from the unchanged tree: keep them aside while the checks run on the patched one
ev=$(mktemp -d /root/scratch/evidence-keep.XXXXXX); cp -a /verif/evidence/. "$ev"/
res=""
for c in $id "$@"; do
  out=$(cd /verif && VERIF_SEED=${VERIF_SEED:-0} timeout 900 ./check $c ${TIER:-quick} 2>&1); rc=$?
  m=$(echo "$out" | grep -m1 'witness mechanism' | sed 's/.*mechanism=//' | cut -d' ' -f1)
  if [ $rc -eq 1 ]; then r="CAUGHT"; elif [ $rc -eq 0 ]; then r="MISSED"; else r="INCONCLUSIVE($rc)"; fi
  echo "$r $c ${TIER:-quick}: $m"
  res="$res $r:$c:$m"
done
git -C /repo checkout -- . ; git -C /repo status --short | head -3
cp -a "$ev"/. /verif/evidence/; rm -rf "$ev"
/venv/bin/python - "$dst" "$rc0" "$rc1" "$tests" "$res" <<'PY'
import json, sys
d, rc0, rc1, tests, res = sys.argv[1:6]
m = json.load(open(d + '/meta.json'))
m['confirmed'] = {'demo_exit_without_patch': int(rc0), 'demo_exit_with_patch': int(rc1), 'pinned_suite_with_patch': tests,
                  'ran': 'tools/seeded.sh: demo.py with and without patch.diff in a scratch worktree (PYTHONPATH=<worktree>/src), pinned pytest suite with the patch, then git -C /repo apply + ./check <ID> quick + git checkout',
                  'checks': res.split()}
json.dump(m, open(d + '/meta.json', 'w'), indent=1)
PY
