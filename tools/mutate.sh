#!/bin/sh
# tools/mutate.sh <patch-file> <check-id>... : apply a patch to the repository (ZV_REPO, default /repo), run the quick checks, revert;
# prints CAUGHT/MISSED per check.  Works inside a `vp run --with-repo` snapshot (export ZV_REPO=$VP_RUN_REPO).
p=$1; shift
here=$(cd "$(dirname "$0")/.." && pwd)
repo=${ZV_REPO:-/repo}
cd "$repo" || exit 2
if ! git apply --check "$p" 2>/dev/null; then echo "PATCH-DOES-NOT-APPLY $p"; exit 2; fi
git apply "$p"
# evidence files must only ever come from the unchanged tree: keep them aside while the checks run on the patched one
ev=$(mktemp -d /root/scratch/evidence-keep.XXXXXX); cp -a "$here"/evidence/. "$ev"/
for id in "$@"; do
  out=$(cd "$here" && VERIF_SEED=${VERIF_SEED:-0} timeout 600 ./check $id ${TIER:-quick} 2>&1); rc=$?
  if [ $rc -eq 1 ]; then echo "CAUGHT $id $(basename $p): $(echo "$out" | grep -m1 'witness mechanism' | cut -c1-160)";
  elif [ $rc -eq 0 ]; then echo "MISSED $id $(basename $p)";
  else echo "INCONCLUSIVE($rc) $id $(basename $p): $(echo "$out" | grep -m1 INCONCLUSIVE | cut -c1-200)"; fi
done
git checkout -- . ; git status --short | head -3
cp -a "$ev"/. "$here"/evidence/; rm -rf "$ev"
