#!/bin/sh
# tools/regress.sh [out.md] : run every own mutant (mutants/<cNN>-*.diff) and every seeded change (seeded/<ID>*/patch.diff)
# against the check of its property (quick tier, VERIF_SEED=0) and write a markdown table. Uses /repo: run nothing else on it meanwhile.
cd "$(dirname "$0")/.."
out=${1:-mutants/RESULTS.md}
{
echo "| broken tree | check | result |"
echo "|---|---|---|"
for p in mutants/*.diff; do
  id=$(basename $p | cut -c1-3 | tr c C)
  r=$(tools/mutate.sh $PWD/$p $id 2>&1 | head -1 | sed 's/|/\//g' | cut -c1-220)
  echo "| $(basename $p .diff) | $id | $r |"
done
for d in seeded/*/; do
  n=$(basename $d); id=$(echo $n | cut -c1-3)
  r=$(tools/mutate.sh $PWD/$d/patch.diff $id 2>&1 | head -1 | sed 's/|/\//g' | cut -c1-220)
  echo "| seeded/$n | $id | $r |"
done
} > $out
grep -c CAUGHT $out; grep "MISSED\|INCONCLUSIVE\|DOES-NOT" $out
