#!/bin/sh
# tools/regress.sh [out.md] : run every own mutant (mutants/<cNN>-*.diff) and every seeded change (seeded/<ID>*/patch.diff, or
# patch-rebased.diff where a later fix moved the context) against the check of its property and the checks that caught it when it
# was seeded (meta.json), quick tier, VERIF_SEED=0, and write a markdown table.  ONLY=<regex> restricts the trees by path.  Uses the repository: run nothing else on it meanwhile.
cd "$(dirname "$0")/.."
out=${1:-mutants/RESULTS.md}
{
echo "| broken tree | check | result |"
echo "|---|---|---|"
for p in mutants/*.diff; do
  [ -n "$ONLY" ] && ! echo "$p" | grep -Eq "$ONLY" && continue
  id=$(basename $p | cut -c1-3 | tr c C)
  r=$(tools/mutate.sh $PWD/$p $id 2>&1 | head -1 | sed 's/|/\//g' | cut -c1-220)
  echo "| $(basename $p .diff) | $id | $r |"
done
for d in seeded/*/; do
  [ -n "$ONLY" ] && ! echo "$d" | grep -Eq "$ONLY" && continue
  n=$(basename $d); id=$(echo $n | cut -c1-3)
  pf=$PWD/$d/patch.diff; [ -f $d/patch-rebased.diff ] && pf=$PWD/$d/patch-rebased.diff
  ids=$(/venv/bin/python - "$d/meta.json" "$id" <<'PY'
import json, sys
m = json.load(open(sys.argv[1])); own = sys.argv[2]
c = m.get('confirmed', {}) if isinstance(m.get('confirmed'), dict) else {}
ids = [own]
for key in ('after_strengthening', 'checks', 'first_run'):
    for x in c.get(key) or []:
        parts = x.split(':')
        if parts[0] == 'CAUGHT' and len(parts) > 1 and parts[1] not in ids:
            ids.append(parts[1])
print(' '.join(ids))
PY
)
  tools/mutate.sh $pf $ids 2>&1 | grep "CAUGHT\|MISSED\|INCONCLUSIVE\|DOES-NOT" | sed 's/|/\//g' | cut -c1-220 | while read r; do
    echo "| seeded/$n | $(echo $r | cut -d' ' -f2) | $r |"
  done
done
} > $out
grep -c CAUGHT $out; grep "MISSED\|INCONCLUSIVE\|DOES-NOT" $out
