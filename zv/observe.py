"""Model-free observation of a storage: everything the query API shows, canonised.
Used where two real executions are compared with each other (index vs no index, packed vs unpacked...)."""
from ZODB.utils import p64, u64, z64, maxtid

from zv.spec import canon, real_history, real_undolog, txn_canon, tid_points


def observe(st, full=True, undolog=True):
    it = st.iterator()
    txns = [txn_canon(t) for t in it]
    if hasattr(it, 'close'):
        it.close()
    oids = sorted({o for t in txns for (o, d) in t[5]})
    tids = [t[0] for t in txns]
    out = {'txns': txns, 'last': canon(st.lastTransaction), 'len': canon(len, st)}
    cur = {}
    for o in oids + [p64(0xfffe)]:
        cur[o] = (canon(st.load, o), canon(st.getTid, o))
    out['cur'] = cur
    if full:
        lb = {}
        pts = tid_points(tids)
        for o in oids:
            lb[o] = [canon(st.loadBefore, o, p) for p in pts]
        out['loadBefore'] = lb
        out['history'] = {o: real_history(st, o, 1000) for o in oids}
        if undolog and hasattr(st, 'undoLog'):
            out['undoLog'] = real_undolog(st, 0, -1000)
        if hasattr(st, 'getSize'):
            out['size'] = canon(st.getSize)
    return out


def first_diff(a, b):
    for k in sorted(set(a) | set(b)):
        if a.get(k) != b.get(k):
            x, y = a.get(k), b.get(k)
            if isinstance(x, dict) and isinstance(y, dict):
                for kk in sorted(set(x) | set(y)):
                    if x.get(kk) != y.get(kk):
                        return (k, kk, _short(x.get(kk)), _short(y.get(kk)))
            if k == 'txns' and isinstance(x, list) and isinstance(y, list):
                return (k, 'lengths', len(x), len(y), [t[0] for t in x][-3:], [t[0] for t in y][-3:])
            return (k, _short(x), _short(y))
    return None


def _short(x):
    r = repr(x)
    return r if len(r) < 300 else r[:300] + '...'
