"""Shadow model of a connection: object ownership/state across modify, link, add, savepoint, rollback,
commit, abort and failed commits; compared with the real objects after every boundary (C11, C12)."""
import transaction
from transaction.interfaces import InvalidSavepointRollbackError

from ZODB.POSException import ConflictError, ConnectionStateError

from zv.objs import Cell


class Diverged(Exception):
    def __init__(self, mechanism, detail):
        Exception.__init__(self, mechanism, detail)
        self.mechanism, self.detail = mechanism, detail


class FailingRM:
    """foreign resource manager that fails in one phase"""

    def __init__(self, phase, key):
        self.phase, self.key = phase, key
        self.calls = []

    def sortKey(self):
        return self.key

    def _hit(self, name):
        self.calls.append(name)
        if name == self.phase:
            raise RuntimeError('foreign resource manager fails in %s' % name)

    def abort(self, t):
        self.calls.append('abort')

    def tpc_begin(self, t):
        self._hit('tpc_begin')

    def commit(self, t):
        self._hit('commit')

    def tpc_vote(self, t):
        self._hit('tpc_vote')

    def tpc_finish(self, t):
        self.calls.append('tpc_finish')

    def tpc_abort(self, t):
        self.calls.append('tpc_abort')


class Shadow:
    def __init__(self, db, rnd, storage, trace):
        self.db, self.rnd, self.st, self.trace = db, rnd, storage, trace
        self.tm = transaction.TransactionManager()
        self.conn = db.open(self.tm)
        self.R = {0: self.conn.root()}      # k -> real object
        self.mem = {0: (None, {})}          # python-level state
        self.committed = {0: (None, {})}
        self.layers = []                    # [{'states': {k: st}, 'creating': set}]
        self.sps = []                       # real savepoint objects, parallel to layers (None when invalid)
        self.work = {}
        self.added = set()
        self.nk = 0
        self.uid = 0
        self.counts = {}
        self.implicit_new_at_store_failure = set()
        self.deviations = []

    def count(self, n):
        self.counts[n] = self.counts.get(n, 0) + 1

    # ---------------------------------------------------------------- model helpers
    def owned(self, k):
        return k in self.committed or k in self.added or any(k in L['states'] for L in self.layers)

    def stored_state(self, k):
        for L in reversed(self.layers):
            if k in L['states']:
                return L['states'][k]
        return self.committed[k]

    def visible(self, k):
        if k in self.work:
            return self.work[k]
        if k in self.added and not any(k in L['states'] for L in self.layers) and k not in self.committed:
            return self.mem[k]
        return self.stored_state(k) if self.owned(k) else self.mem[k]

    def store_set(self):
        start = set(self.work) | set(self.added)
        out = set()
        todo = list(start)
        while todo:
            k = todo.pop()
            if k in out:
                continue
            out.add(k)
            st = self.work.get(k, self.mem[k])
            for j in st[1].values():
                if not self.owned(j) or j in self.added:
                    if j not in out:
                        todo.append(j)
        return out

    # ---------------------------------------------------------------- real helpers
    def read(self, k):
        o = self.R[k]
        ident = {id(v): kk for kk, v in self.R.items()}
        if k == 0:
            items = dict(o.items())
            pay = None
        else:
            items = dict(o.refs)
            pay = o.payload
        edges = {}
        for n, v in items.items():
            edges[n] = ident.get(id(v), ('unknown-object', getattr(v, '_p_oid', None)))
        return (pay, edges)

    def write(self, k, st):
        o = self.R[k]
        if k == 0:
            for n in list(o.keys()):
                if n not in st[1]:
                    del o[n]
            for n, j in st[1].items():
                if n not in o or o[n] is not self.R[j]:
                    o[n] = self.R[j]
        else:
            o.payload = st[0]
            o.refs = {n: self.R[j] for n, j in st[1].items()}

    def compare(self, where):
        """all objects: ownership flags and visible state"""
        self.count('shadow_comparisons')
        for k in sorted(self.R):
            o = self.R[k]
            if self.owned(k):
                if o._p_jar is not self.conn or o._p_oid is None:
                    raise Diverged('owned-object-has-no-oid-or-jar', {'where': where, 'object': k, 'oid': o._p_oid, 'jar': o._p_jar is not None})
                try:
                    got = self.read(k)
                except Exception as e:
                    raise Diverged('owned-object-unreadable-%s' % type(e).__name__, {'where': where, 'object': k, 'exc': repr(e)[:200]})
                exp = self.visible(k)
                if got != exp:
                    raise Diverged('object-state-differs-from-shadow-model', {'where': where, 'object': k, 'real': got, 'model': exp})
            else:
                if o._p_oid is not None or o._p_jar is not None:
                    m = 'disowned-object-keeps-oid-or-jar'
                    if k in self.implicit_new_at_store_failure:
                        # deciding feature: the object was implicitly new (found while serialising a referrer) in a
                        # commit whose store phase failed before the object itself was stored
                        m = 'implicitly-new-object-keeps-oid-and-jar-after-store-phase-failure'
                        # recorded (known finding), flags repaired by hand so that the program can go on
                        self.deviations.append((m, {'where': where, 'object': k, 'oid': o._p_oid}))
                        del o._p_jar
                        del o._p_oid
                        continue
                    raise Diverged(m, {'where': where, 'object': k, 'oid': o._p_oid, 'jar': o._p_jar is not None})
                # a disowned object is an ordinary Python object again: it must still hold the state the program gave it
                try:
                    got = self.read(k)
                except Exception as e:
                    raise Diverged('disowned-object-lost-its-state', {'where': where, 'object': k, 'exc': repr(e)[:120], 'ghost': o._p_changed is None})
                if got != self.mem[k]:
                    raise Diverged('disowned-object-state-differs', {'where': where, 'object': k, 'real': got, 'model': self.mem[k]})

    def compare_committed(self, where):
        """a second connection must see exactly the committed state"""
        tm2 = transaction.TransactionManager()
        c2 = self.db.open(tm2)
        try:
            tm2.begin()
            oid2k = {self.R[k]._p_oid: k for k in self.committed}
            for k, exp in self.committed.items():
                o = c2.get(self.R[k]._p_oid)
                items = dict(o.items()) if k == 0 else dict(o.refs)
                got = (None if k == 0 else o.payload, {n: oid2k.get(v._p_oid, ('uncommitted-object', v._p_oid)) for n, v in items.items()})
                if got != exp:
                    raise Diverged('second-connection-sees-uncommitted-or-wrong-state', {'where': where, 'object': k, 'real': got, 'model': exp})
            self.count('second_connection_comparisons')
            tm2.abort()
        finally:
            c2.close()

    # ---------------------------------------------------------------- operations
    def fresh(self):
        self.nk += 1
        self.uid += 1
        k = self.nk
        self.R[k] = Cell('p%d' % self.uid)
        self.mem[k] = ('p%d' % self.uid, {})
        return k

    def op_modify(self):
        ks = [k for k in self.R if k != 0]
        if not ks:
            return self.op_link()
        k = self.rnd.choice(ks)
        self.uid += 1
        cur = self.visible(k)
        st = ('p%d' % self.uid, dict(cur[1]))
        self._set(k, st)
        self.trace.append('mod(%d)' % k)

    def _set(self, k, st):
        self.write(k, st)
        self.mem[k] = st
        if self.owned(k):
            self.work[k] = st

    def op_link(self):
        owned = [k for k in self.R if self.owned(k)]
        src = self.rnd.choice(owned if self.rnd.random() < 0.8 else list(self.R))
        r = self.rnd.random()
        free_old = [k for k in self.R if not self.owned(k) and k != src]
        if r < 0.5 or len(self.R) < 3:
            tgt = self.fresh()
        elif r < 0.7 and free_old:
            tgt = self.rnd.choice(free_old)           # re-use a disowned / never stored object
            self.count('relinked_disowned_objects')
        else:
            tgt = self.rnd.choice([k for k in self.R if k not in (0, src)] or [self.fresh()])
        self.uid += 1
        cur = self.visible(src)
        edges = dict(cur[1])
        edges['e%d' % self.uid] = tgt
        self._set(src, (cur[0], edges))
        self.trace.append('link(%d->%d)' % (src, tgt))

    def op_unlink(self):
        cand = [k for k in self.R if self.visible(k)[1]]
        if not cand:
            return
        k = self.rnd.choice(cand)
        cur = self.visible(k)
        edges = dict(cur[1])
        n = self.rnd.choice(sorted(edges))
        del edges[n]
        self._set(k, (cur[0], edges))
        self.trace.append('unlink(%d.%s)' % (k, n))

    def op_add(self):
        free_old = [k for k in self.R if not self.owned(k)]
        k = self.rnd.choice(free_old) if free_old and self.rnd.random() < 0.4 else self.fresh()
        self.conn.add(self.R[k])
        self.added.add(k)
        self.trace.append('add(%d)' % k)
        self.count('explicit_adds')

    def _flatten_commit(self):
        S = self.store_set()
        for L in self.layers:
            self.committed.update(L['states'])
        for k in S:
            self.committed[k] = self.work.get(k, self.mem[k])
        stored = set(S)
        for L in self.layers:
            stored |= set(L['states'])
        self.layers, self.sps, self.work, self.added = [], [], {}, set()
        return stored

    def op_commit(self):
        before = self.st.lastTransaction()
        self.tm.commit()
        stored = self._flatten_commit()
        self.trace.append('commit')
        self.count('commits')
        tid = self.st.lastTransaction()
        if stored:
            if tid == before:
                raise Diverged('commit-with-changes-stored-no-transaction', {'stored': sorted(stored)})
            it = self.st.iterator(tid, tid)
            oids = sorted(r.oid for t in it for r in t)
            if hasattr(it, 'close'):
                it.close()
            exp = sorted(self.R[k]._p_oid for k in stored)
            if oids != exp:
                k_of = {self.R[k]._p_oid: k for k in self.R if self.R[k]._p_oid}
                raise Diverged('records-of-commit-differ-from-changed-plus-new-plus-added',
                               {'real': [k_of.get(o, o) for o in oids], 'model': sorted(stored)})
            for k in stored:
                o = self.R[k]
                if o._p_changed is not None:         # a ghost is clean by definition
                    if o._p_changed is not False:
                        raise Diverged('object-not-clean-after-commit', {'object': k})
                    if o._p_serial != tid:
                        raise Diverged('object-serial-differs-from-commit-tid', {'object': k, 'serial': o._p_serial, 'tid': tid})
            self.count('commit_record_sets_checked')
        self.compare('after-commit')
        for k in stored:
            if self.R[k]._p_serial != tid:
                raise Diverged('object-serial-differs-from-commit-tid', {'object': k, 'serial': self.R[k]._p_serial, 'tid': tid})
        self.compare_committed('after-commit')

    def _abort_model(self):
        self.layers, self.sps, self.work, self.added = [], [], {}, set()
        for k in self.committed:
            self.mem[k] = self.committed[k]

    def op_abort(self):
        self.tm.abort()
        self._abort_model()
        self.trace.append('abort')
        self.count('aborts')
        self.compare('after-abort')
        self.compare_committed('after-abort')

    def op_savepoint(self):
        sp = self.tm.savepoint(self.rnd.random() < 0.3)       # sometimes an optimistic savepoint
        S = self.store_set()
        creating = {k for k in S if not (k in self.committed or any(k in L['states'] for L in self.layers))}
        self.layers.append({'states': {k: self.work.get(k, self.mem[k]) for k in S}, 'creating': creating})
        self.sps.append(sp)
        self.work, self.added = {}, set()
        self.trace.append('savepoint#%d' % (len(self.layers) - 1))
        self.count('savepoints')
        self.compare('after-savepoint')
        self.compare_committed('after-savepoint')

    def op_rollback(self):
        if not self.layers:
            return
        i = self.rnd.randrange(len(self.layers))
        sp = self.sps[i]
        try:
            sp.rollback()
        except InvalidSavepointRollbackError:
            raise Diverged('valid-savepoint-refuses-rollback', {'index': i, 'savepoints': len(self.sps)})
        later = len(self.layers) - 1 - i
        # later savepoints must have become invalid
        for j in range(i + 1, len(self.sps)):
            try:
                self.sps[j].rollback()
                raise Diverged('savepoint-taken-after-rollback-target-still-valid', {'index': j, 'rolled_back_to': i})
            except InvalidSavepointRollbackError:
                pass
        self.layers = self.layers[:i + 1]
        self.sps = self.sps[:i + 1]
        self.work, self.added = {}, set()
        for k in list(self.R):
            if self.owned(k):
                self.mem[k] = self.visible(k)
        self.trace.append('rollback#%d' % i)
        self.count('rollbacks')
        if later:
            self.count('rollbacks_past_later_savepoints')
        self.compare('after-rollback')
        self.compare_committed('after-rollback')

    # ---------------------------------------------------------------- failed commits (C11)
    def op_conflict(self):
        """another connection commits a change to an object this transaction also changed"""
        cand = [k for k in self.committed if k != 0]
        if not cand:
            return
        k = self.rnd.choice(cand)
        self.uid += 1
        cur = self.visible(k)
        self._set(k, ('mine%d' % self.uid, dict(cur[1])))
        tm2 = transaction.TransactionManager()
        c2 = self.db.open(tm2)
        tm2.begin()
        o2 = c2.get(self.R[k]._p_oid)
        o2.payload = 'theirs%d' % self.uid
        tm2.commit()
        c2.close()
        theirs = ('theirs%d' % self.uid, self.committed[k][1])
        self.implicit_new_at_store_failure = {j for j in self.store_set() if not self.owned(j)}
        try:
            self.tm.commit()
            raise Diverged('conflicting-commit-accepted', {'object': k})
        except ConflictError:
            pass
        self.tm.abort()
        self.committed[k] = theirs
        self._abort_model()
        self.trace.append('conflict(%d)' % k)
        self.count('failed_commits_conflict')
        self.compare('after-conflict')
        self.compare_committed('after-conflict')

    def op_serialize_failure(self):
        """the commit fails in the store phase because a *new* object (implicitly new, or explicitly added) cannot be
        serialized: nothing is stored, every new object is disowned and keeps its state"""
        from zv.objs import Cell, SerializeFailure
        owned = [k for k in self.R if self.owned(k)]
        src = self.rnd.choice(owned)
        bad = self.fresh()
        if self.rnd.random() < 0.3:
            self.conn.add(self.R[bad])
            self.added.add(bad)
        self.uid += 1
        cur = self.visible(src)
        edges = dict(cur[1])
        edges['e%d' % self.uid] = bad
        self._set(src, (cur[0], edges))
        if self.rnd.random() < 0.5:
            # the failing object itself refers to another new object
            child = self.fresh()
            self.R[bad].refs['c'] = self.R[child]
            self.mem[bad] = (self.mem[bad][0], {'c': child})
        before = self.st.lastTransaction()
        Cell.FAIL_IDS.add(id(self.R[bad]))
        try:
            try:
                self.tm.commit()
                raise Diverged('commit-succeeded-although-an-object-could-not-be-serialized', {'object': bad})
            except SerializeFailure:
                pass
        finally:
            Cell.FAIL_IDS.discard(id(self.R[bad]))
        self.tm.abort()
        if self.st.lastTransaction() != before:
            raise Diverged('failed-commit-stored-a-transaction', {'phase': 'serialize'})
        self._abort_model()
        self.trace.append('serialize-failure(%d)' % bad)
        self.count('failed_commits_serialize')
        self.compare('after-serialize-failure')
        self.compare_committed('after-serialize-failure')

    def op_foreign_failure(self):
        phase = self.rnd.choice(['tpc_begin', 'commit', 'tpc_vote'])
        key = self.rnd.choice(['!before', '~~~after'])
        rm = FailingRM(phase, key)
        if not (self.work or self.added or self.layers):
            self.op_link()
        self.tm.get().join(rm)
        before = self.st.lastTransaction()
        try:
            self.tm.commit()
            raise Diverged('commit-succeeded-although-a-participant-failed', {'phase': phase})
        except RuntimeError:
            pass
        self.tm.abort()
        if self.st.lastTransaction() != before:
            raise Diverged('failed-commit-stored-a-transaction', {'phase': phase, 'key': key})
        self._abort_model()
        self.trace.append('foreign-failure(%s,%s)' % (phase, key[1:]))
        self.count('failed_commits_foreign_rm')
        self.compare('after-foreign-failure')
        self.compare_committed('after-foreign-failure')

    def op_storage_begin_failure(self, limited):
        """over-long transaction metadata: a storage that limits it rejects the transaction in its tpc_begin"""
        if not (self.work or self.added or any(L['states'] for L in self.layers)):
            # make sure the connection takes part in the transaction: change the root
            tgt = self.fresh()
            self.uid += 1
            cur = self.visible(0)
            edges = dict(cur[1])
            edges['e%d' % self.uid] = tgt
            self._set(0, (cur[0], edges))
            self.trace.append('link(0->%d)' % tgt)
        self.tm.get().note('m' * 70000)
        before = self.st.lastTransaction()
        if not limited:
            return self.op_commit()
        try:
            self.tm.commit()
            raise Diverged('commit-with-over-long-metadata-accepted', {})
        except Diverged:
            raise
        except Exception as e:
            if type(e).__name__ != 'FileStorageError':
                raise
        self.tm.abort()
        if self.st.lastTransaction() != before:
            raise Diverged('failed-commit-stored-a-transaction', {'phase': 'storage-tpc_begin'})
        if self.st.tpc_transaction() is not None:
            raise Diverged('storage-still-in-the-failed-transaction', {'phase': 'storage-tpc_begin'})
        self._abort_model()
        self.trace.append('storage-begin-failure')
        self.count('failed_commits_storage_begin')
        self.compare('after-storage-begin-failure')
        self.compare_committed('after-storage-begin-failure')

    def op_close_while_joined(self):
        if not (self.work or self.added or self.layers):
            self.op_modify()
            if not (self.work or self.added):
                return
        # "inside a transaction" = the connection is one of the transaction's resources: also right after a savepoint or a
        # rollback, when everything it changed sits in the savepoint storage and nothing is registered with it
        if not any(r is self.conn for r in getattr(self.tm.get(), '_resources', ())):
            return
        if not (self.work or self.added):
            self.count('close_attempts_with_everything_in_savepoints')
        try:
            self.conn.close()
            raise Diverged('close-inside-a-transaction-accepted', {})
        except ConnectionStateError:
            pass
        self.trace.append('close-while-joined')
        self.count('close_while_joined_refused')
        self.compare('after-refused-close')

    def op_reopen(self):
        """close outside a transaction and take the connection from the pool again"""
        if self.work or self.added or self.layers:
            return
        self.tm.abort()
        self.conn.close()
        c = self.db.open(self.tm)
        if c is not self.conn:
            # another pooled connection: rebind our handles through oids
            self.R = {k: c.get(o._p_oid) for k, o in self.R.items() if k in self.committed}
            self.mem = {k: self.committed[k] for k in self.R}
            self.conn = c
        self.trace.append('reopen')
        self.count('reopens')
        self.compare('after-reopen')

    def op_cache_pressure(self):
        """mid-transaction cache garbage collection / minimisation: unmodified objects (also new ones a savepoint has stored)
        become ghosts; nothing observable may change"""
        if self.rnd.random() < 0.5:
            self.conn.cacheMinimize()
        else:
            self.conn.cacheGC()
        self.trace.append('cache-pressure')
        self.count('cache_pressure_ops')
        self.compare('after-cache-pressure')

    def op_refused_write(self):
        """a write the connection cannot take because it cannot join a transaction (made through a kept reference while the
        connection is closed, or - explicit transaction manager - before begin()): it raises, changes nothing, and the
        connection works normally afterwards"""
        if self.work or self.added or self.layers:
            return
        owned = [k for k in self.R if k != 0 and self.owned(k) and k in self.committed]
        if not owned:
            return
        k = self.rnd.choice(owned)
        o = self.R[k]
        self.tm.abort()
        how = self.rnd.choice(['closed', 'explicit-before-begin'])
        if how == 'closed':
            self.conn.close()
        else:
            o._p_activate()
            self.tm.explicit = True
        try:
            o.payload = 'write the connection had to refuse'
            accepted = True
        except Exception:
            accepted = False
        # the same through a container (the root mapping): mappings and lists change their data first and tell the connection
        # afterwards, so the refusal comes when the change is already made - it must not stay visible
        junk = 'refused-%d' % self.uid
        root = self.conn._cache.get(b'\0' * 8) if how == 'closed' else self.conn.root()
        if root is not None:
            if how != 'closed':
                root._p_activate()
            try:
                root[junk] = 1
                accepted = True
            except Exception:
                pass
            self.count('refused_container_writes')
        if how != 'closed':
            # an explicit add that cannot be registered either: the object must stay a plain Python object
            from zv.objs import Cell
            stray = Cell('never added')
            try:
                self.conn.add(stray)
                accepted = True
            except Exception:
                if stray._p_oid is not None or stray._p_jar is not None:
                    self.tm.explicit = False
                    self.tm.abort()
                    raise Diverged('object-of-a-refused-add-keeps-oid-or-jar', {'how': how})
            self.count('refused_adds')
        if how == 'closed':
            c = self.db.open(self.tm)
            if c is not self.conn:
                self.R = {kk: c.get(oo._p_oid) for kk, oo in self.R.items() if kk in self.committed}
                self.mem = {kk: self.committed[kk] for kk in self.R}
                self.conn = c
        else:
            self.tm.explicit = False
            self.tm.abort()
        if accepted:
            # (a storage-less write that went through would have to be an ordinary modification; none of the bundled paths allows it)
            raise Diverged('write-accepted-although-the-connection-could-not-join', {'how': how, 'object': k})
        if junk in self.conn.root():
            raise Diverged('refused-write-to-a-container-stays-visible-as-if-committed', {'how': how})
        self.trace.append('refused-write(%s)' % how)
        self.count('refused_writes')
        self.compare('after-refused-write')

    def finish(self):
        try:
            self.tm.abort()
        except Exception:
            pass
        self.conn.close()
