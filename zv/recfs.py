"""E1 RecFS: recording and fault-injecting raw file layer.

rec_open() builds CPython's real buffered stack (BufferedRandom/Reader/Writer,
TextIOWrapper) over a RawIOBase subclass wrapping io.FileIO, so what is recorded
is exactly the sequence of low-level writes/truncates the OS would see.  An `os`
proxy records namespace operations, rec_fsync records fsync.  Monitors and fault
plans hang off the single op log LOG.
"""
import errno
import io
import os
import shutil
import sys
import tempfile
import threading


class Injected(OSError):
    pass


class OpLog:
    def __init__(self):
        self.reset()

    def reset(self):
        self.ops = []          # ('write', path, pos, bytes) | ('truncate', path, size) | ('create', path)
        #                        | ('rename', a, b) | ('remove', p) | ('fsync', path) | ('mark', ...)
        self.fdpath = {}
        self.fault = None      # callable(op) -> None | ('raise', errno) | ('short', nbytes, errno)
        self.enabled = True
        self.on_io = None      # scheduler yield callback(kind, path)
        self.reads = 0
        self.watch = None      # callable(op) online monitor

    def add(self, *op):
        if self.enabled:
            self.ops.append(op)
            if self.watch is not None:
                self.watch(op)

    def mark(self, *m):
        self.ops.append(('mark',) + m)
        if self.watch is not None:
            self.watch(self.ops[-1])


LOG = OpLog()
MUTATING = ('write', 'truncate', 'create', 'rename', 'remove', 'unlink', 'rmdir', 'mkdir', 'makedirs', 'link',
            'replace', 'chmod', 'rmtree', 'copyfile', 'utime')


def _fault(op):
    if LOG.fault is not None and LOG.enabled:
        act = LOG.fault(op)
        if act is not None:
            return act
    return None


class RecRaw(io.RawIOBase):
    def __init__(self, path, mode):
        existed = os.path.exists(path)
        apath = os.path.abspath(path)
        if ('w' in mode or 'x' in mode or 'a' in mode) or ('+' in mode):
            pass
        if 'w' in mode or 'x' in mode or ('a' in mode and not existed):
            act = _fault(('create', apath))
            if act is not None:
                raise Injected(act[1], 'injected fault (create)')
        self._f = io.FileIO(path, mode)
        self.path = apath
        self.name = path
        self.mode = self._f.mode
        self._append = 'a' in mode
        LOG.fdpath[self._f.fileno()] = self.path
        if 'w' in mode or 'x' in mode or ('a' in mode and not existed):
            LOG.add('create', self.path)

    def readable(self):
        return self._f.readable()

    def writable(self):
        return self._f.writable()

    def seekable(self):
        return True

    def fileno(self):
        return self._f.fileno()

    def isatty(self):
        return False

    def readinto(self, b):
        if LOG.on_io:
            LOG.on_io('read', self.path)
        LOG.reads += 1
        return self._f.readinto(b)

    def write(self, b):
        if LOG.on_io:
            LOG.on_io('write', self.path)
        data = bytes(b)
        pos = os.fstat(self._f.fileno()).st_size if self._append else self._f.tell()
        op = ('write', self.path, pos, data)
        act = _fault(op)
        if act is not None:
            if act[0] == 'short':
                n = min(act[1], len(data))
                if n:
                    LOG.add('write', self.path, pos, data[:n])
                    self._f.write(data[:n])
                raise Injected(act[2], 'injected fault (short write)')
            raise Injected(act[1], 'injected fault (write)')
        LOG.add(*op)
        n = self._f.write(data)
        return n

    def seek(self, off, whence=0):
        return self._f.seek(off, whence)

    def tell(self):
        return self._f.tell()

    def truncate(self, size=None):
        if LOG.on_io:
            LOG.on_io('truncate', self.path)
        if size is None:
            size = self._f.tell()
        op = ('truncate', self.path, size)
        act = _fault(op)
        if act is not None:
            raise Injected(act[1], 'injected fault (truncate)')
        LOG.add(*op)
        return self._f.truncate(size)

    def close(self):
        if not self.closed:
            try:
                LOG.fdpath.pop(self._f.fileno(), None)
            except Exception:
                pass
            self._f.close()
            super().close()


def rec_open(path, mode='r', buffering=-1, encoding=None, errors=None, newline=None):
    if isinstance(path, int):
        return io.open(path, mode, buffering, encoding, errors, newline)
    binary = 'b' in mode
    m = mode.replace('b', '').replace('t', '')
    raw = RecRaw(path, m or 'r')
    try:
        if buffering == 0:
            if not binary:
                raise ValueError("can't have unbuffered text I/O")
            return raw
        if '+' in m:
            buf = io.BufferedRandom(raw)
        elif m[0] in 'wax':
            buf = io.BufferedWriter(raw)
        else:
            buf = io.BufferedReader(raw)
        if binary:
            return buf
        return io.TextIOWrapper(buf, encoding=encoding, errors=errors, newline=newline)
    except BaseException:
        raw.close()
        raise


def _abs(x):
    return os.path.abspath(x) if isinstance(x, str) else x


class OsProxy:
    """module-like proxy for `os` that records namespace-changing calls"""
    _rec = ('rename', 'remove', 'unlink', 'rmdir', 'mkdir', 'makedirs', 'link', 'replace', 'chmod', 'utime')

    def __init__(self):
        self.path = os.path

    def _makedirs_stepwise(self, name, mode=0o777, exist_ok=False):
        # os.makedirs as the interpreter runs it: an existence test per missing ancestor, then one mkdir each (each mkdir is a
        # scheduling point of its own, so another thread can act between the test and the mkdir as it can in reality)
        head, tail = os.path.split(name)
        if not tail:
            head, tail = os.path.split(head)
        if head and tail and not os.path.exists(head):
            try:
                self._makedirs_stepwise(head, exist_ok=exist_ok)
            except FileExistsError:
                pass
            if tail == os.curdir:
                return
        try:
            self.mkdir(name, mode)
        except OSError:
            if not exist_ok or not os.path.isdir(name):
                raise

    def __getattr__(self, n):
        v = getattr(os, n)
        if n == 'makedirs' and LOG.on_io:
            return self._makedirs_stepwise           # (under a scheduler only: the op logs of the crash engines keep one entry)
        if n in self._rec:
            def w(*a, **k):
                if LOG.on_io:
                    LOG.on_io(n, a[0])
                op = (n,) + tuple(_abs(x) for x in a)
                act = _fault(op)
                if act is not None:
                    raise Injected(act[1], 'injected fault (%s)' % n)
                r = v(*a, **k)
                LOG.add(*op)
                return r
            return w
        if n == 'fsync':
            return rec_fsync
        return v


def rec_fsync(fd):
    p = LOG.fdpath.get(fd, fd)
    op = ('fsync', p)
    if LOG.on_io:
        LOG.on_io('fsync', p)
    act = _fault(op)
    if act is not None:
        raise Injected(act[1], 'injected fault (fsync)')
    os.fsync(fd)
    LOG.add(*op)


class ShutilProxy:
    def __getattr__(self, n):
        v = getattr(shutil, n)
        if n in ('rmtree', 'copyfile', 'move', 'copy'):
            def w(*a, **k):
                op = (n,) + tuple(_abs(x) for x in a if isinstance(x, str))
                act = _fault(op)
                if act is not None:
                    raise Injected(act[1], 'injected fault (%s)' % n)
                r = v(*a, **k)
                LOG.add(*op)
                return r
            return w
        return v


PROXY = OsProxy()
SHPROXY = ShutilProxy()
_installed = False


def install(extra_modules=()):
    """Rebind open/os/fsync in the ZODB modules that touch files."""
    global _installed
    import ZODB.FileStorage
    import ZODB.fsIndex
    import ZODB.blob
    FSM = sys.modules['ZODB.FileStorage.FileStorage']
    PK = sys.modules['ZODB.FileStorage.fspack']
    mods = [FSM, PK, ZODB.fsIndex, ZODB.blob] + list(extra_modules)
    for mod in mods:
        mod.open = rec_open
        if hasattr(mod, 'os'):
            mod.os = PROXY
        if hasattr(mod, 'shutil'):
            mod.shutil = SHPROXY
    FSM.fsync = rec_fsync
    _installed = True
    return FSM


# ---------------------------------------------------------------- image replay
def apply_op(images, op):
    """Apply one recorded op to a dict path -> bytearray (the crash-state image)."""
    kind = op[0]
    if kind == 'write':
        _, path, pos, data = op
        img = images.setdefault(path, bytearray())
        if len(img) < pos:
            img.extend(b'\0' * (pos - len(img)))
        img[pos:pos + len(data)] = data
    elif kind == 'truncate':
        _, path, size = op
        img = images.setdefault(path, bytearray())
        if size < len(img):
            del img[size:]
        else:
            img.extend(b'\0' * (size - len(img)))
    elif kind == 'create':
        images[op[1]] = bytearray()
    elif kind in ('rename', 'replace'):
        if op[1] in images:
            images[op[2]] = images.pop(op[1])
    elif kind in ('remove', 'unlink'):
        images.pop(op[1], None)
    elif kind == 'link':
        if op[1] in images:
            images[op[2]] = bytearray(images[op[1]])
    elif kind == 'rmtree':
        pre = op[1].rstrip('/') + '/'
        for k in [k for k in images if k.startswith(pre)]:
            del images[k]


def snapshot_dir(d):
    """path -> bytes for every regular file below d"""
    out = {}
    for root, dirs, files in os.walk(d):
        for f in files:
            p = os.path.join(root, f)
            with io.open(p, 'rb') as fh:
                out[os.path.abspath(p)] = fh.read()
    return out


def selftest():
    import tempfile as tf
    d = tf.mkdtemp(dir='/dev/shm' if os.path.isdir('/dev/shm') else None)
    try:
        LOG.reset()
        p = os.path.join(d, 'x')
        with rec_open(p, 'w+b') as f:
            f.write(b'hello')
            f.flush()
            f.seek(1)
            f.write(b'E')
            f.flush()
            f.truncate(3)
        PROXY.rename(p, p + '2')
        images = {}
        for op in LOG.ops:
            apply_op(images, op)
        assert bytes(images[os.path.abspath(p + '2')]) == b'hEl' == io.open(p + '2', 'rb').read(), images
        LOG.reset()
    finally:
        shutil.rmtree(d, ignore_errors=True)
