"""Engine self-tests run by setup.sh (fast, offline)."""
import importlib
import pkgutil
import sys

import zv
import zv.props


def main():
    n = 0
    for pkg in (zv, zv.props):
        for m in pkgutil.iter_modules(pkg.__path__):
            if m.ispkg:
                continue
            mod = importlib.import_module(pkg.__name__ + '.' + m.name)
            n += 1
            st = getattr(mod, 'selftest', None)
            if st is not None and pkg is zv:
                st()
    print('zv selftest ok: %d modules imported' % n)


if __name__ == '__main__':
    sys.exit(main())
