"""Regenerate MANIFEST.json from the property drivers that exist (python -m zv.mkmanifest)."""
import importlib
import json
import os

HERE = os.path.dirname(os.path.dirname(os.path.abspath(__file__)))

ENGINES = [
    {'name': 'runner', 'path': 'zv/run.py', 'serves_properties': 'all',
     'kind_free_text': 'shard launcher (subprocess + watchdog), evidence writer, known-findings classifier, replay files'},
    {'name': 'RecFS', 'path': 'zv/recfs.py', 'serves_properties': ['C01', 'C05', 'C08', 'C09', 'C13', 'C16'],
     'kind_free_text': 'recording / fault-injecting raw file layer under the real io.Buffered* stack, os/fsync proxies, op log with markers'},
    {'name': 'Crash', 'path': 'zv/crash.py', 'serves_properties': ['C01', 'C08', 'C09'],
     'kind_free_text': 'crash-state materialiser: op-log prefixes and torn byte cuts rebuilt on tmpfs and reopened with the real storage'},
    {'name': 'Sched', 'path': 'zv/sched.py', 'serves_properties': ['C02', 'C03', 'C08', 'C15', 'C20'],
     'kind_free_text': 'deterministic baton scheduler owning Lock/RLock/Condition, raw I/O and statement-start yields (sys.monitoring LINE)'},
    {'name': 'Spec', 'path': 'zv/spec.py', 'serves_properties': ['C01', 'C04', 'C05', 'C06', 'C07', 'C08', 'C09', 'C16', 'C17'],
     'kind_free_text': 'pure-Python reference model of a storage as its ordered committed transactions + query battery + independent FS30 parser'},
]


def main():
    checks = []
    claimed = set()
    props = [json.loads(l) for l in open(os.path.join(HERE, 'properties.jsonl'))]
    for p in props:
        pid = p['id']
        try:
            mod = importlib.import_module('zv.props.' + pid.lower())
        except ImportError:
            continue
        if getattr(mod, 'DISABLED', None):
            continue
        claimed.add(pid)
        checks.append({
            'property_id': pid,
            'quick_cmd': './check %s quick' % pid,
            'thorough_cmd': './check %s thorough' % pid,
            'evidence_file': 'evidence/%s.json' % pid,
            'replay_cmd_template': './check %s --replay {path}' % pid,
            'engine': getattr(mod, 'ENGINE', 'runner'),
            'level_claimed': {'category': mod.LEVEL, 'text': mod.LEVEL_TEXT, 'design_ref': 'DESIGN.md section 4 (%s)' % pid},
            'level_note': mod.LEVEL_NOTE,
            'technique': mod.TECHNIQUE,
        })
    na = []
    reasons = {}
    rp = os.path.join(HERE, 'zv', 'not_applicable.json')
    if os.path.exists(rp):
        reasons = json.load(open(rp))
    for p in props:
        if p['id'] not in claimed:
            na.append({'property_id': p['id'],
                       'reason': reasons.get(p['id'], 'runtime-monitoring check designed (DESIGN.md section 4) but not built yet; not claimed')})
    engines = []
    for e in ENGINES:
        if os.path.exists(os.path.join(HERE, e['path'])):
            e = dict(e)
            if e['serves_properties'] == 'all':
                e['serves_properties'] = sorted(claimed)
            else:
                e['serves_properties'] = [x for x in e['serves_properties'] if x in claimed]
            engines.append(e)
    man = {
        'version': 1,
        'setup_cmd': 'sh ./setup.sh',
        'hooks': {
            'guard': 'ZODB_VERIF',
            'enable': 'no source hooks: the harness imports ZODB from /repo/src (current working tree) and rebinds module '
                      'globals (open/os/fsync/time/random/Lock/RLock/Condition) at import time; ./check exports ZODB_VERIF=1 '
                      'for uniformity but the repository does not read it',
            'baseline_off_cmd': 'cd /repo && /venv/bin/python -m pytest -ra -q -p no:cacheprovider --timeout=900 --continue-on-collection-errors',
            'source_commits': [],
            'add_only': True,
        },
        'engines': engines,
        'checks': checks,
        'not_applicable': na,
        'notes': 'Runtime monitoring only: every check drives the real code from /repo/src under generated workloads, '
                 'faults, crash cuts or schedules and decides with an oracle over what was observed; see DESIGN.md. '
                 'Genuine upstream defects found are either repaired by "fix:" commits in /repo or listed in known_findings.json.',
    }
    with open(os.path.join(HERE, 'MANIFEST.json'), 'w') as f:
        json.dump(man, f, indent=1)
    print('claimed', sorted(claimed), 'not_applicable', [x['property_id'] for x in na])


if __name__ == '__main__':
    main()
