"""E2 Crash: crash-state materialiser over a RecFS op log.

Crash model (the property's own): a prefix of the issued op sequence, plus byte-prefix
("torn") cuts of a single write; renames/removes/creates are atomic; no reordering.
"""
import hashlib
import os
import shutil

from zv.recfs import apply_op


def cut_points(n, every_byte, rnd, big=4096):
    """interior byte cuts 1..n-1 of a write of n bytes"""
    if n <= 1:
        return []
    if every_byte and n <= big:
        return list(range(1, n))
    pts = set(range(1, min(n, 48))) | set(range(max(1, n - 24), n))
    k = 64 if every_byte else 6
    for _ in range(k):
        pts.add(rnd.randrange(1, n))
    return sorted(p for p in pts if 0 < p < n)


class CrashEnum:
    """Iterate over distinct crash states of (files0, ops).

    files0: {abs path: bytes} directory snapshot taken when recording started.
    torn(path) -> bool selects the files whose writes are also cut at byte granularity.
    Yields (tag, images, info) where tag=(op_index, cut|'end'), info has nF (finish_ret markers seen),
    last marker and whether the cut is inside a transaction's/pack's write sequence.
    """

    def __init__(self, files0, ops, torn, every_byte, rnd):
        self.images = {k: bytearray(v) for k, v in files0.items()}
        self.ops = ops
        self.torn = torn
        self.every_byte = every_byte
        self.rnd = rnd
        self.seen = set()
        self.markers = {}
        self.open_begin = False
        self.states = 0

    def _digest(self, extra):
        h = hashlib.sha1()
        for k in sorted(self.images):
            h.update(k.encode())
            h.update(b'\0')
            h.update(bytes(self.images[k]))
            h.update(b'|')
        h.update(repr(extra).encode())
        return h.digest()

    def __iter__(self):
        info = lambda inside: dict(self.markers, inside=inside)
        dg = self._digest(self.markers.get('finish_ret', 0))
        self.seen.add(dg)
        yield ('init', 'end'), self.images, info(False)
        for k, op in enumerate(self.ops):
            kind = op[0]
            if kind == 'mark':
                self.markers[op[1]] = op[2] if len(op) > 2 else self.markers.get(op[1], 0) + 1
                self.markers['last'] = op[1]
                continue
            if kind == 'fsync':
                continue
            inside = self.markers.get('last') in ('begin', 'vote_ret', 'pack_begin', 'pack_copy')
            if kind == 'write' and self.torn(op[1]):
                _, path, pos, data = op
                img = self.images.setdefault(path, bytearray())
                base_len = len(img)
                tail = bytes(img[pos:])
                for j in cut_points(len(data), self.every_byte, self.rnd):
                    if base_len < pos:
                        img.extend(b'\0' * (pos - base_len))
                    img[pos:pos + j] = data[:j]
                    dg = self._digest(self.markers.get('finish_ret', 0))
                    if dg not in self.seen:
                        self.seen.add(dg)
                        yield (k, j), self.images, info(inside or not path.endswith('Data.fs'))
                    del img[min(pos, base_len):]       # undo the partial write
                    img.extend(tail)
            apply_op(self.images, op)
            dg = self._digest(self.markers.get('finish_ret', 0))
            if dg in self.seen:
                continue
            self.seen.add(dg)
            yield (k, 'end'), self.images, info(inside)


def materialise(images, src_root, dst_root):
    """write the image under dst_root, mapping paths below src_root"""
    shutil.rmtree(dst_root, ignore_errors=True)
    os.makedirs(dst_root)
    src_root = src_root.rstrip('/') + '/'
    for k, v in images.items():
        if not k.startswith(src_root):
            continue
        p = os.path.join(dst_root, k[len(src_root):])
        dn = os.path.dirname(p)
        if not os.path.isdir(dn):
            os.makedirs(dn)
        with open(p, 'wb') as f:
            f.write(v)


def selftest():
    import random
    ops = [('write', '/r/a', 0, b'hello'), ('mark', 'begin', 1), ('write', '/r/a', 5, b'wor'), ('rename', '/r/a', '/r/b')]
    ce = CrashEnum({'/r/a': b''}, ops, lambda p: True, True, random.Random(0))
    states = [(t, {k: bytes(v) for k, v in im.items()}) for t, im, info in ce]
    got = [s[1].get('/r/a', s[1].get('/r/b')) for s in states]
    assert got == [b'', b'h', b'he', b'hel', b'hell', b'hello', b'hellow', b'hellowo', b'hellowor', b'hellowor'], got
    assert '/r/b' in states[-1][1]
