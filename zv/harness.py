"""Shard-side bookkeeping shared by all property drivers."""
import hashlib
import json
import os
import shutil
import time
import traceback


def digest(*parts):
    h = hashlib.sha1()
    for p in parts:
        if isinstance(p, bytes):
            h.update(p)
        else:
            h.update(repr(p).encode())
        h.update(b'|')
    return h.hexdigest()[:16]


class Shard:
    """Collects what the monitors observed in one shard."""

    def __init__(self, params):
        self.p = params
        self.t0 = time.time()
        self.deadline = self.t0 + params.get('budget_s', 60)
        self.scratch = params.get('scratch') or '/dev/shm/zv-adhoc-%d' % os.getpid()
        os.makedirs(self.scratch, exist_ok=True)
        self.evaluations = 0
        self.nontrivial = set()
        self.samples = []
        self.violations = []
        self.counters = {}
        self.inconclusive = []
        self._dirn = 0

    def time_left(self):
        return time.time() < self.deadline

    def fresh_dir(self, name='w'):
        d = os.path.join(self.scratch, name)
        shutil.rmtree(d, ignore_errors=True)
        os.makedirs(d)
        return d

    def count(self, name, n=1):
        self.counters[name] = self.counters.get(name, 0) + n

    def note(self, name, value, cap=60):
        lst = self.counters.setdefault(name, [])
        if value not in lst and len(lst) < cap:
            lst.append(value)

    def case(self, nontrivial_digest=None, sample=None, n=1):
        self.evaluations += n
        if nontrivial_digest is not None:
            self.nontrivial.add(nontrivial_digest)
        if sample is not None and len(self.samples) < 2:
            self.samples.append(sample)

    def violation(self, mechanism, detail, case):
        self.count('violating_cases')
        # keep at most a few witnesses per mechanism, but count all
        same = [v for v in self.violations if v['mechanism'] == mechanism]
        if len(same) < 3:
            self.violations.append({'mechanism': mechanism, 'detail': detail, 'case': case})
        else:
            same[0]['more'] = same[0].get('more', 0) + 1

    def result(self):
        return {'evaluations': self.evaluations, 'nontrivial': sorted(self.nontrivial),
                'samples': self.samples, 'violations': self.violations,
                'counters': self.counters, 'inconclusive': self.inconclusive}


def split(tier, seed, n_quick, n_thorough, budget_quick, budget_thorough, nshards=16, **extra):
    """Shard parameter dicts: case indices i with i % nshards == shard."""
    n = n_quick if tier == 'quick' else n_thorough
    b = budget_quick if tier == 'quick' else budget_thorough
    ns = max(1, min(nshards, n))
    out = []
    for s in range(ns):
        d = dict(tier=tier, seed=seed, shard=s, nshards=ns, ncases=n, budget_s=b)
        d.update(extra)
        out.append(d)
    return out


def case_indices(params):
    return range(params['shard'], params['ncases'], params['nshards'])


def case_seed(params, i, salt=0):
    return (params['seed'] * 1000003 + i * 7919 + salt) & 0x7fffffff


def guarded(shard, mechanism_prefix, case, fn):
    """Run fn(); any exception escaping the driver is an observation, not noise:
    on the unchanged tree drivers are silent, so an escaping exception means the
    code under test raised where the oracle expected an answer."""
    try:
        return fn()
    except Exception as e:
        tb = traceback.extract_tb(e.__traceback__)
        where = ['%s:%d' % (os.path.basename(f.filename), f.lineno) for f in tb[-4:]]
        shard.violation('%s:unexpected-%s' % (mechanism_prefix, type(e).__name__),
                        {'exc': repr(e)[:400], 'where': where}, case)
        return None
