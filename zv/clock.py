"""FakeClock: module-level `time` replacement so tids (and therefore file bytes) are reproducible
and hostile clock behaviours (stall, step back, jump) can be driven."""
import sys
import time as _t


class FakeClock:
    def __init__(self, start=1600000000.0, step=1.0, mode='normal', rnd=None):
        self.now = start
        self.step = step
        self.mode = mode
        self.rnd = rnd
        self.calls = 0

    def time(self):
        self.calls += 1
        m = self.mode
        if m == 'normal':
            self.now += self.step
        elif m == 'stall':
            pass
        elif m == 'back':
            self.now -= self.rnd.choice([0.5, 3600, 86400 * 400])
        elif m == 'mixed':
            self.now += self.rnd.choice([-100000, -100, 0, 0, 1, 1000])
        elif m == 'jump':
            self.now += self.rnd.choice([1, 1, 86400 * 365])
        return self.now

    def sleep(self, s):
        self.now += s

    def __getattr__(self, n):
        return getattr(_t, n)


def install(clock):
    import ZODB.BaseStorage, ZODB.utils, ZODB.MappingStorage, ZODB.DB, ZODB.Connection, ZODB.FileStorage
    mods = [ZODB.BaseStorage, ZODB.utils, ZODB.MappingStorage, ZODB.DB, ZODB.Connection,
            sys.modules['ZODB.FileStorage.FileStorage']]
    for name in ('ZODB.FileStorage.fspack', 'ZODB.DemoStorage', 'ZODB.blob'):
        m = sys.modules.get(name)
        if m is not None and hasattr(m, 'time'):
            mods.append(m)
    for m in mods:
        if hasattr(m, 'time'):
            m.time = clock
    return clock


def uninstall():
    """back to the real clock in all patched modules"""
    return install(_t)
