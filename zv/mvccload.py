"""Multi-threaded MVCC workload under the baton scheduler + the C02 (snapshot) and C03 (lost update) oracles."""
import itertools
import os
import random
import shutil
import sys

import transaction

from zv import sched
from zv.sched import Sched

NCELL = 4
_installed = {}


def setup(lines=True):
    """patch locks (+ LINE yields) once per process"""
    if _installed:
        return _installed['FSM']
    import ZODB.mvccadapter as MV
    import ZODB.Connection as CN
    import ZODB.DB as DBM
    import ZODB.BaseStorage as BS
    import ZODB.MappingStorage as MS
    import ZODB.DemoStorage as DS
    from zv import recfs
    FSM = recfs.install()
    PK = sys.modules['ZODB.FileStorage.fspack']
    recfs.LOG.enabled = False
    sched.install((MV, CN, DBM, BS, FSM, PK, MS, DS) if lines else ())
    _installed['FSM'] = FSM
    return FSM


def make_db(kind, d, FSM):
    import ZODB
    import ZODB.MappingStorage
    import ZODB.DemoStorage
    from zv import objs
    if kind == 'file':
        st = FSM.FileStorage(d + '/Data.fs')
    elif kind == 'file-blobs':
        st = FSM.FileStorage(d + '/Data.fs', blob_dir=d + '/blobs')
    elif kind == 'mapping':
        st = ZODB.MappingStorage.MappingStorage()
    elif kind == 'demo':
        st = ZODB.DemoStorage.DemoStorage()
    elif kind == 'demo-based':
        # every object lives in the base: the first change of each one through the demo storage has its predecessor down there
        st = ZODB.MappingStorage.MappingStorage()
    else:
        st = ZODB.DemoStorage.DemoStorage(base=ZODB.MappingStorage.MappingStorage(), changes=FSM.FileStorage(d + '/Ch.fs'))
    db = ZODB.DB(st)
    with db.transaction() as c:
        for i in range(NCELL):
            c.root()['c%d' % i] = objs.Plain()
        c.root()['counter'] = objs.Counter(0)
    if kind == 'demo-based':
        # (the first DB is left open: closing it would close the mapping storage that now serves as the base)
        db = ZODB.DB(ZODB.DemoStorage.DemoStorage(base=st, changes=FSM.FileStorage(d + '/Ch.fs')))
    if kind == 'file-blobs':
        # a blob that is garbage when the world starts: a pack removes its directory, and the directory levels that empties
        from ZODB.blob import Blob
        with db.transaction() as c:
            c.root()['gb'] = Blob(b'garbage blob')
        with db.transaction() as c:
            del c.root()['gb']
    if kind in ('file', 'file-blobs'):
        for k in range(2):          # a little history so that a pack has something to free
            with db.transaction() as c:
                for i in range(NCELL):
                    cell = c.root()['c%d' % i]
                    cell.base, cell.tok = cell.tok, 'pre%d-%d' % (k, i)
    return db


class VoteNo(Exception):
    pass


class NoVoter:
    """a second participant, sorted after the connection, that votes no: the storage has voted and must roll back"""

    def __init__(self, tm):
        self.transaction_manager = tm

    def sortKey(self):
        return 'z' * 40

    def tpc_vote(self, t):
        raise VoteNo()

    def abort(self, t):
        pass
    tpc_begin = commit = tpc_finish = tpc_abort = abort


def rerun_on_watchdog(fn):
    """Deadlock and livelock are decided on scheduler state.  The 60 s wall-clock watchdog around a world is only a guard: when
    it fires and nothing else was found, the same (deterministic) world is run once more; only a hang that shows again is reported."""
    import functools

    @functools.wraps(fn)
    def w(*a, **k):
        out = fn(*a, **k)
        if [f[0] for f in out.get('sched', [])] == ['watchdog']:
            out2 = fn(*a, **k)
            out2['watchdog_reruns'] = 1
            return out2
        return out
    return w


@rerun_on_watchdog
def run_schedule(seed, kind, strategy, scratch, park=None, stick=0.9, pct_depth=2, packer=False, lines=True, collect_locs=False,
                 force_undo=False):
    """one world, one schedule -> dict(c02=[...], c03=[...], sched failures, stats)"""
    from ZODB.POSException import ConflictError, ReadConflictError
    from ZODB.utils import u64, p64, z64
    from persistent.TimeStamp import TimeStamp
    from zv import objs
    if strategy == 'free':
        assert not _installed, 'free-running worlds need a process without the baton scheduler'
        from zv import recfs
        FSM = recfs.install()
        recfs.LOG.enabled = False
    else:
        FSM = setup(lines)
    # a quarter of the worlds run under a stalled clock: every transaction id is then the direct successor of the previous one,
    # so snapshot bounds (last id + 1) coincide with the ids of the commits that follow
    from zv import clock as _clock
    import time as _time
    stalled = seed % 4 == 1 and not packer        # (a pack time 0.1 ms after the setup would cover every id handed out under a stalled clock)
    if stalled:
        _clock.install(_clock.FakeClock(start=_time.time(), mode='stall'))
    else:
        _clock.uninstall()
    d = os.path.join(scratch, 'w')
    shutil.rmtree(d, ignore_errors=True)
    os.makedirs(d)
    db = make_db(kind, d, FSM)
    ptime = None
    if packer:
        ptime = TimeStamp(db.lastTransaction()).timeTime() + 0.0001
        pack_tid = db.lastTransaction()
    if strategy == 'free':
        from zv.sched import FreeSched
        s = FreeSched(seed)
    else:
        s = Sched(seed, strategy, stick=stick, park=park, pct_depth=pct_depth)
    wrnd = random.Random(seed * 7 + 1)
    uid = itertools.count(1)
    txlog = []
    reader_errors = []

    def writer(name, n):
        rnd = random.Random(wrnd.random())

        def f():
            tm = transaction.TransactionManager()
            c = db.open(tm)
            for k in range(n):
                rec = dict(client=name, kind='w', reads=[], writes={}, outcome=None, tid=None, rc=[], delta=0)
                rec['b'] = s.log('boundary', name)
                tm.begin()
                try:
                    r = c.root()
                    tok = '%s-%d-%d' % (name, k, next(uid))
                    idx = rnd.sample(range(NCELL), rnd.choice([1, 2, 2, 3]))
                    sp_at = rnd.choice([None, None, 'before', 'middle', 'after', 'rolled-back', 'rc-write-rolled-back', 'rc-write-rolled-back'])
                    if sp_at == 'rc-write-rolled-back':
                        # readCurrent(dep), then a write to dep that goes into a savepoint and is rolled back: the dependency stays
                        others0 = [i for i in range(NCELL) if i not in idx]
                        if others0:
                            if rnd.random() < 0.5:
                                r['c%d' % idx[0]].tok            # (joined or not yet joined when the first savepoint is taken)
                                r['c%d' % idx[0]]._p_changed = True
                            dep = r['c%d' % rnd.choice(others0)]
                            tk = dep.tok
                            rec['reads'].append((dep._p_oid, dep._p_serial, tk))
                            c.readCurrent(dep)
                            rec['rc'].append((dep._p_oid, dep._p_serial))
                            sp = tm.savepoint()
                            dep.tok = 'junk-to-be-rolled-back'
                            tm.savepoint()
                            sp.rollback()
                            if dep.tok != tk:
                                rec['own_write_lost'] = True
                    if sp_at == 'before':
                        tm.savepoint()
                    for n_i, i in enumerate(idx):
                        if sp_at == 'middle' and n_i == 1:
                            tm.savepoint(rnd.random() < 0.5)
                        cell = r['c%d' % i]
                        t0 = cell.tok
                        rec['reads'].append((cell._p_oid, cell._p_serial, t0))
                        cell.base = t0
                        cell.tok = tok
                        rec['writes'][cell._p_oid] = (tok, t0)
                        if cell.tok != tok:
                            rec['own_write_lost'] = True
                    if sp_at == 'after':
                        tm.savepoint()
                    elif sp_at == 'rolled-back':
                        sp = tm.savepoint()
                        junk = r['c%d' % idx[0]]
                        junk.tok = 'junk-to-be-rolled-back'
                        sp.rollback()
                        if junk.tok != tok:
                            rec['own_write_lost'] = True
                    others = [i for i in range(NCELL) if i not in idx]
                    if others and rnd.random() < 0.4:
                        j = rnd.choice(others)
                        dep = r['c%d' % j]
                        tk = dep.tok
                        rec['reads'].append((dep._p_oid, dep._p_serial, tk))
                        c.readCurrent(dep)
                        rec['rc'].append((dep._p_oid, dep._p_serial))
                    if rnd.random() < 0.4:
                        cnt = r['counter']
                        dlt = rnd.randrange(1, 9)
                        cnt.value += dlt
                        rec['delta'] = dlt
                    tm.get().note(tok)
                    if rnd.random() < 0.25:
                        tm.get().join(NoVoter(tm))          # the commit fails after the storage voted
                    rec['call'] = s.log('commit_call', name)
                    tm.commit()
                    rec['outcome'] = 'ok'
                    rec['ret'] = s.log('commit_ret', name)
                    rec['lt'] = db.storage.lastTransaction()       # what the storage calls its last transaction right after this commit
                    rec['tid'] = None        # attributed after the run from the storage history (unique token)
                except (ConflictError, VoteNo) as e:
                    rec['outcome'] = type(e).__name__
                    tm.abort()
                txlog.append(rec)
                if rnd.random() < 0.3:
                    c.close()
                    c = db.open(tm)
            c.close()
        return f

    def reader(name, n):
        rnd = random.Random(wrnd.random())

        def f():
            tm = transaction.TransactionManager()
            c = db.open(tm)
            for k in range(n):
                rec = dict(client=name, kind='r', reads=[], outcome=None)
                rec['b'] = s.log('boundary', name)
                tm.begin()
                try:
                    r = c.root()
                    order = list(range(NCELL))
                    rnd.shuffle(order)
                    for i in order:
                        cell = r['c%d' % i]
                        if rnd.random() < 0.3:
                            cell._p_deactivate()
                        tok = cell.tok
                        rec['reads'].append((cell._p_oid, cell._p_serial, tok))
                        s.yield_point('app')
                    if rnd.random() < 0.2:
                        c.cacheMinimize()
                    rec['outcome'] = 'ok'
                except Exception as e:
                    rec['outcome'] = type(e).__name__
                    reader_errors.append((name, type(e).__name__, repr(e)[:160], rec['b']))
                if rnd.random() < 0.5:
                    tm.abort()
                else:
                    tm.commit()
                txlog.append(rec)
                if rnd.random() < 0.3:
                    c.close()
                    c = db.open(tm)
            c.close()
        return f
    def hreader(name, n):
        # historical connections: at the last transaction (always allowed) and at "now" (allowed only when no id can still be
        # handed out below that point, e.g. under a stalled clock); whatever is allowed must show exactly the revisions at its point
        from ZODB.utils import newTid
        rnd = random.Random(seed * 13 + 5)

        def f():
            for k in range(n):
                rec = dict(client=name, kind='h', reads=[], outcome=None)
                rec['b'] = s.log('boundary', name)
                how = rnd.choice(['at-last', 'now', 'now'])
                tm = transaction.TransactionManager()
                try:
                    if how == 'at-last':
                        last = db.lastTransaction()
                        rec['before'] = p64(u64(last) + 1)
                        c = db.open(tm, at=last)
                    else:
                        rec['before'] = newTid(db.lastTransaction())
                        c = db.open(tm, before=rec['before'])
                except ValueError:
                    rec['outcome'] = 'refused'
                    txlog.append(rec)
                    s.yield_point('app')
                    continue
                try:
                    tm.begin()
                    r = c.root()
                    order = list(range(NCELL)) * 2
                    rnd.shuffle(order)
                    for i in order:
                        cell = r['c%d' % i]
                        if rnd.random() < 0.5:
                            cell._p_deactivate()
                        tok = cell.tok
                        rec['reads'].append((cell._p_oid, cell._p_serial, tok))
                        s.yield_point('app')
                    rec['outcome'] = 'ok'
                except Exception as e:
                    rec['outcome'] = type(e).__name__
                    reader_errors.append((name, type(e).__name__, repr(e)[:160], rec['b']))
                tm.abort()
                c.close()
                txlog.append(rec)
        return f
    undo_tids = []

    def undoer():
        import base64
        from ZODB.POSException import UndoError
        tm = transaction.TransactionManager()
        c = db.open(tm)
        for k in range(2):
            tm.begin()
            s.yield_point('app')
            try:
                info = [x for x in db.undoInfo(0, 4) if str(x['description']).startswith(('w0-', 'w1-'))]
            except UndoError:
                info = []            # undo log disabled while a pack runs
            if not info:
                tm.abort()
                continue
            u = info[0]
            try:
                db.undo(u['id'], tm.get())
                tm.get().note('undo ' + str(u['description']))
                s.log('commit_call', 'u')
                tm.commit()
                ret = s.log('commit_ret', 'u')
                undo_tids.append((ret, db.storage.lastTransaction() if False else None, base64.decodebytes(u['id'] + b'\n')))
            except (UndoError, ConflictError):
                tm.abort()
        c.close()
    pres = []

    def packer_f():
        try:
            db.pack(ptime)
            pres.append('ok')
        except Exception as e:
            pres.append('%s:%s' % (type(e).__name__, str(e)[:80]))
    s.spawn('w0', writer('w0', 3))
    s.spawn('w1', writer('w1', 3))
    s.spawn('r0', reader('r0', 4))
    if wrnd.random() < 0.4:
        s.spawn('r1', reader('r1', 3))
    if random.Random(seed * 17 + 3).random() < 0.5:
        s.spawn('h', hreader('h', 3))
    if packer:
        s.spawn('p', packer_f)
    with_undo = kind in ('file', 'demo-file') and (wrnd.random() < 0.5 or force_undo)
    if with_undo:
        s.spawn('u', undoer)
    ok = s.run(60)
    fails = s.failures()
    if not ok and not fails:
        fails.append(('watchdog', 60))
    out = {'c02': [], 'c03': [], 'sched': fails, 'pack': pres, 'switches': s.switches, 'decisions': len(s.trace), 'digest': s.digest(),
           'locs': dict(s.locs) if collect_locs else None, 'overlap': 0, 'ok_commits': 0, 'conflicts': 0, 'reader_txns': 0, 'undos': 0,
           'vote_failures': len([t for t in txlog if t.get('outcome') == 'VoteNo']), 'stalled_clock': stalled,
           'historical_refused': len([t for t in txlog if t['kind'] == 'h' and t['outcome'] == 'refused'])}
    if fails:
        # the world may hold locks for ever: do not touch it again
        return out
    v2, v3 = out['c02'], out['c03']
    # ---- history from the storage
    hist = {}
    c = db.open(transaction.TransactionManager())
    st = db.storage
    oid_name = {}
    it = st.iterator()
    undo_rev_tids = {t.tid for t in it if t.description.startswith(b'undo ')}
    if hasattr(it, 'close'):
        it.close()
    out['undos'] = len(undo_rev_tids)
    for i in range(NCELL):
        cell = c.root()['c%d' % i]
        oid = cell._p_oid
        oid_name[oid] = 'c%d' % i
        revs = []
        it = st.iterator()
        for t in it:
            for r in t:
                if r.oid == oid and r.data is not None:
                    stt = objs.decode_record(r.data)[1]        # independent decoder
                    revs.append((t.tid, stt['tok'], stt['base']))
        if hasattr(it, 'close'):
            it.close()
        revs.sort()
        hist[oid] = revs
    cnt_final = c.root()['counter'].value
    c.close()
    # attribute every successful writer transaction to the tid(s) under which its unique token was stored
    for t in txlog:
        if t['kind'] == 'w' and t['outcome'] == 'ok':
            tok = list(t['writes'].values())[0][0]
            tt = sorted({tid for oid in t['writes'] for (tid, tk, bb) in hist[oid] if tk == tok and tid not in undo_rev_tids})
            t['tids'] = tt
            t['tid'] = tt[0] if tt else z64
    commits = sorted((t['ret'], t['tid']) for t in txlog if t['kind'] == 'w' and t['outcome'] == 'ok')
    # undo commits: the single undoer commits sequentially, so its k-th returned commit is the k-th undo transaction
    for (ret, _, _), utid in zip(sorted(undo_tids), sorted(undo_rev_tids)):
        commits.append((ret, utid))
    commits.sort()
    out['ok_commits'] = len(commits)
    out['conflicts'] = len([t for t in txlog if t['kind'] == 'w' and t['outcome'] != 'ok'])
    # ---- transaction ids follow the commit order: a commit called after another one had returned gets the greater id
    oks = [t for t in txlog if t['kind'] == 'w' and t['outcome'] == 'ok' and t.get('tid')]
    for x in oks:
        for y in oks:
            if x['ret'] < y['call'] and not x['tid'] < y['tid']:
                v2.append(('transaction-ids-do-not-follow-the-commit-order', x['client'], y['client'], u64(x['tid']), u64(y['tid'])))
                v3.append(('transaction-ids-do-not-follow-the-commit-order', x['client'], y['client'], u64(x['tid']), u64(y['tid'])))
    # ---- lastTransaction() never falls behind a commit that has returned (ids are handed out in commit order)
    for x in oks:
        L = max([y['tid'] for y in oks if y['ret'] <= x['ret']])
        if x['lt'] < L:
            w = ('lastTransaction-behind-a-commit-that-had-returned', x['client'], u64(x['lt']), u64(L))
            v2.append(w)
            v3.append(w)
    # ---- C02: every transaction's reads fit one point of the commit order, no older than the last commit completed before its boundary
    for t in txlog:
        if not t['reads']:
            continue
        if t['kind'] == 'r':
            out['reader_txns'] += 1
        lo = z64
        hi = None
        bad = False
        for (oid, serial, tok) in t['reads']:
            revs = hist[oid]
            m = [k for k, (tid, tk, b) in enumerate(revs) if tid == serial]
            if not m:
                if packer and serial <= pack_tid:
                    continue            # revision packed away
                v2.append(('read-of-a-revision-no-transaction-stored', t['client'], oid_name[oid], serial))
                bad = True
                continue
            k = m[0]
            if revs[k][1] != tok:
                v2.append(('value-differs-from-the-revision-it-claims', t['client'], oid_name[oid], tok, revs[k][1]))
                bad = True
                continue
            nxt = revs[k + 1][0] if k + 1 < len(revs) else None
            lo = max(lo, serial)
            if nxt is not None:
                hi = nxt if hi is None else min(hi, nxt)
        if bad:
            continue
        if t['kind'] == 'h':
            out['historical_txns'] = out.get('historical_txns', 0) + 1
            for (oid, serial, tok) in t['reads']:
                below = [tid for (tid, tk, b) in hist[oid] if tid < t['before']]
                if below and below[-1] != serial and not (packer and serial <= pack_tid):
                    v2.append(('historical-read-differs-from-the-revision-at-its-point', u64(t['before']), oid_name[oid], u64(serial), u64(below[-1])))
                    break
            if hi is not None and not (lo < hi):
                v2.append(('inconsistent-snapshot', t['client'], [(oid_name[o], u64(a), tk) for o, a, tk in t['reads']]))
            continue
        L = max([tid for (ret, tid) in commits if ret < t['b']] or [z64])
        if any(t['b'] < ret for (ret, tid) in commits):
            out['overlap'] += 1
        if hi is not None and not (lo < hi):
            v2.append(('inconsistent-snapshot', t['client'], [(oid_name[o], u64(a), tk) for o, a, tk in t['reads']]))
        elif hi is not None and not (max(lo, L) < hi):
            v2.append(('stale-snapshot-after-boundary', t['client'], u64(L), [(oid_name[o], u64(a)) for o, a, _ in t['reads']], u64(hi)))
        if t.get('own_write_lost'):
            v2.append(('own-uncommitted-write-not-visible', t['client']))
    for (name, tname, rep, b) in reader_errors:
        if packer and tname == 'ReadConflictError':
            continue
        v2.append(('reader-raised-%s' % tname, name, rep))
    # ---- C03
    for oid, revs in hist.items():
        for a, b in zip(revs, revs[1:]):
            if b[0] in undo_rev_tids:
                continue                # an undo revision restores an earlier state by design
            if b[2] != a[1]:
                if packer and a[0] <= pack_tid:
                    continue
                v3.append(('lost-update:revision-not-derived-from-its-predecessor', oid_name[oid], a[1:], b[1:]))
    oktoks = {tok for t in txlog if t['kind'] == 'w' and t['outcome'] == 'ok' for (tok, b) in t['writes'].values()}
    alltoks = {tk for revs in hist.values() for (tid, tk, b) in revs if not tk.startswith(('init', 'pre'))}
    if alltoks - oktoks:
        v3.append(('value-of-failed-transaction-stored', sorted(alltoks - oktoks)[:3]))
    if oktoks - alltoks:
        v3.append(('value-of-successful-commit-missing', sorted(oktoks - alltoks)[:3]))
    for t in txlog:
        if t['kind'] == 'w' and t['outcome'] == 'ok':
            if len(t['tids']) != 1:
                v3.append(('one-transaction-stored-under-several-tids', t['client']))
            for oid, (tok, b) in t['writes'].items():
                tids = [tid for (tid, tk, bb) in hist[oid] if tk == tok and tid not in undo_rev_tids]
                if tids != [t['tid']]:
                    v3.append(('write-not-stored-exactly-once-under-the-commit-tid', tok, len(tids)))
            for (oid, serial) in t['rc']:
                below = [tid for (tid, tk, bb) in hist[oid] if tid < t['tid']]
                if below and below[-1] != serial:
                    v3.append(('readCurrent-dependency-changed-before-commit', t['client'], oid_name[oid], u64(serial), u64(below[-1])))
    exp_cnt = sum(t['delta'] for t in txlog if t['kind'] == 'w' and t['outcome'] == 'ok')
    if cnt_final != exp_cnt and not undo_rev_tids:
        v3.append(('mergeable-counter-total-differs-from-sum-of-successful-deltas', cnt_final, exp_cnt))
    try:
        db.close()
    except Exception:
        pass
    return out
