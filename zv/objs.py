"""Importable persistent classes used by the workloads + an independent record factory/decoder.

The oracles never ask the code under test what a record means: records for the storage-level
drivers are produced here with a plain zodbpickle Pickler, and decoded here with a plain
Unpickler whose persistent_load only collects reference tuples.
"""
import io

import persistent
import zodbpickle.pickle as zp

from ZODB.POSException import ConflictError


class SerializeFailure(Exception):
    pass


class Cell(persistent.Persistent):
    """generic node: payload + named references"""
    FAIL_IDS = set()         # id()s of instances whose serialization is made to fail (shadow op 'serialize-failure')

    def __init__(self, payload=None):
        self.payload = payload
        self.refs = {}

    def __getstate__(self):
        if Cell.FAIL_IDS and id(self) in Cell.FAIL_IDS:
            raise SerializeFailure()
        return persistent.Persistent.__getstate__(self)


class Plain(persistent.Persistent):
    """unresolvable object with (tok, base) fields for lost-update chains"""

    def __init__(self):
        self.tok = 'init'
        self.base = None


class Counter(persistent.Persistent):
    """additive counter: merge = old + (committed-old) + (new-old)"""

    def __init__(self, value=0):
        self.value = value

    def _p_resolveConflict(self, old, committed, new):
        RESOLVER_LOG.append(('Counter', old, committed, new))
        r = dict(new)
        r['value'] = committed['value'] + new['value'] - old['value']
        return r


class USet(persistent.Persistent):
    """set-union merge, keeps a persistent reference field untouched"""

    def __init__(self):
        self.items = []
        self.ref = None

    def _p_resolveConflict(self, old, committed, new):
        RESOLVER_LOG.append(('USet', old, committed, new))
        r = dict(new)
        r['items'] = sorted(set(committed['items']) | set(new['items']))
        return r


class MaxReg(persistent.Persistent):
    def __init__(self, value=0):
        self.value = value

    def _p_resolveConflict(self, old, committed, new):
        RESOLVER_LOG.append(('MaxReg', old, committed, new))
        r = dict(committed)
        r['value'] = max(committed['value'], new['value'])
        return r


class Raiser(persistent.Persistent):
    """resolver that fails: odd values raise ValueError, even raise ConflictError"""

    def __init__(self, value=0):
        self.value = value

    def _p_resolveConflict(self, old, committed, new):
        RESOLVER_LOG.append(('Raiser', old, committed, new))
        if new['value'] % 2:
            raise ValueError('resolver failed')
        raise ConflictError('resolver says no')


RESOLVER_LOG = []


class Ref:
    """marker for a persistent reference inside a state handed to make_record"""

    def __init__(self, oid, fmt='tuple', cls=None, dbname=None):
        self.oid = oid
        self.fmt = fmt
        self.cls = cls
        self.dbname = dbname

    def __repr__(self):
        return 'Ref(%s,%s)' % (self.oid.hex() if isinstance(self.oid, bytes) else self.oid, self.fmt)

    def __eq__(self, other):
        return isinstance(other, Ref) and (self.oid, self.fmt, self.dbname) == (other.oid, other.fmt, other.dbname)

    def cls_name(self):
        c = self.cls
        return None if c is None else (getattr(c, '__module__', None), getattr(c, '__name__', None)) if isinstance(c, type) else c

    def __hash__(self):
        return hash((self.oid, self.fmt, self.dbname))


def _pid(o):
    if isinstance(o, Ref):
        cls = o.cls or Cell
        if o.fmt == 'tuple':
            return (o.oid, cls)
        if o.fmt == 'tuple-str':        # legacy record written by Python 2: oid is a (now unicode) str
            return (o.oid.decode('latin-1'), cls)
        if o.fmt == 'oid-str':
            return o.oid.decode('latin-1')
        if o.fmt == 'oid':
            return o.oid
        if o.fmt == 'w':
            return ['w', (o.oid,)]
        if o.fmt == 'wdb':
            return ['w', (o.oid, o.dbname)]
        if o.fmt == 'm':
            return ['m', (o.dbname, o.oid, cls)]
        if o.fmt == 'n':
            return ['n', (o.dbname, o.oid)]
        raise ValueError(o.fmt)
    return None


_GONE_MOD = 'zv_gone_refmod'
# class of referenced objects that can be named in a record but not imported where the record is read (a storage server
# without the application code): its module exists only while a record is being pickled
GoneRef = type('GoneRef', (persistent.Persistent,), {'__module__': _GONE_MOD})


class gone_module:
    def __enter__(self):
        import sys
        import types
        m = types.ModuleType(_GONE_MOD)
        m.GoneRef = GoneRef
        sys.modules[_GONE_MOD] = m

    def __exit__(self, *a):
        import sys
        sys.modules.pop(_GONE_MOD, None)


def make_record(cls, state, protocol=3):
    """class pickle + state pickle; Ref instances inside state become persistent references"""
    f = io.BytesIO()
    p = zp.Pickler(f, protocol)
    p.persistent_id = _pid
    with gone_module():
        p.dump(cls)
        p.dump(state)
    return f.getvalue()


def cell_record(payload, refs=(), cls=None, fmt='tuple'):
    return make_record(cls or Cell, {'payload': payload, 'refs': {('r%d' % i): Ref(o, fmt) for i, o in enumerate(refs)}})


def decode_record(data):
    """-> (class_meta, state, refs) where persistent references in state are Ref objects;
    refs lists them in pickling order (all formats)."""
    refs = []

    def pl(pid):
        if isinstance(pid, tuple):
            r = Ref(_b(pid[0]), 'tuple', pid[1])
        elif isinstance(pid, (bytes, str)):
            r = Ref(_b(pid), 'oid')
        elif isinstance(pid, list):
            k, a = pid
            if k == 'w':
                r = Ref(_b(a[0]), 'w' if len(a) == 1 else 'wdb', dbname=(a[1] if len(a) > 1 else None))
            elif k == 'm':
                r = Ref(_b(a[1]), 'm', a[2], a[0])
            elif k == 'n':
                r = Ref(_b(a[1]), 'n', None, a[0])
            else:
                raise ValueError(pid)
        else:
            raise ValueError(pid)
        refs.append(r)
        return r
    class U(zp.Unpickler):
        def find_class(self, m, n):
            try:
                return zp.Unpickler.find_class(self, m, n)
            except (ImportError, AttributeError):
                return type(str(n), (_Missing,), {'__module__': str(m)})

        def persistent_load(self, pid):
            return pl(pid)
    u = U(io.BytesIO(data))
    meta = u.load()
    state = u.load()
    return meta, state, refs


class _Missing:
    def __init__(self, *a, **k):
        self.args = a

    def __setstate__(self, st):
        self.state = st


def _b(x):
    return x if isinstance(x, bytes) else x.encode('latin-1')


def strong_refs(data):
    """oids of ordinary (strong, same-database) references of a record, in pickling order"""
    return [r.oid for r in decode_record(data)[2] if r.fmt in ('tuple', 'oid')]


class ArgsCell(persistent.Persistent):
    """class with constructor arguments: references to it are stored as bare oids"""

    def __init__(self, payload=None):
        self.payload = payload
        self.refs = {}

    def __getnewargs__(self):
        return ()
