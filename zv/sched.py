"""E3 Sched: deterministic baton scheduler.

Real threads, exactly one holds the baton.  ZODB's Lock/RLock/Condition (looked up through
ZODB.utils), every RecFS raw I/O call, explicit yields in workload code and - optionally - every
statement start in selected ZODB modules (sys.monitoring LINE events) are scheduling points.
Strategies: sticky random walk, PCT-style priorities, and a location-indexed delay ("park") sweep.
A run is reproducible from (seed, strategy parameters); its decision list is recorded.
"""
import hashlib
import random
import sys
import threading

_RealLock = threading.Lock
TOOL = 3


class Sched:
    cur = None

    def __init__(self, seed, strategy='sticky', stick=0.9, park=None, pct_depth=2, est_steps=3000, max_steps=400000, rdv=None):
        self.rng = random.Random(seed)
        self.threads = {}
        self.trace = []
        self.done_evt = threading.Event()
        self.deadlock = None
        self.active = False
        self.switches = 0
        self.steps = 0
        self.strategy = strategy
        self.stick = stick
        self.park = park              # (thread, file, line, occurrence) or None
        self.occ = 0
        self.parked = False
        # rendezvous ((threadA, file, line, occ), (threadB, file, line, occ)): A waits at its location until B stands at its own,
        # then A goes on first and B stays put until everybody else has finished or is blocked ("A's step happens between B's
        # previous step and this one").  If B never gets there (it blocks on a lock A holds, say) A is released like a parked thread.
        self.rdv = rdv
        self.rdv_b = False
        self.rdv_met = False
        self.held = set()
        self.prio = {}
        self.locs = {}                # (thread, file, line) -> count
        self.tls = threading.local()
        self.change_points = sorted(self.rng.randrange(est_steps) for _ in range(max(0, pct_depth - 1))) if strategy == 'pct' else []
        self.events = []              # client-boundary events, appended under the baton
        self.max_steps = max_steps
        self.livelock = False

    # ------------------------------------------------------------------ client API
    def log(self, *ev):
        self.events.append((len(self.events),) + ev)
        return len(self.events) - 1

    def spawn(self, name, fn):
        st = dict(name=name, sem=threading.Semaphore(0), blocked=None, done=False, exc=None)

        def run():
            st['sem'].acquire()
            self.tls.st = st
            try:
                fn()
            except BaseException as e:
                st['exc'] = e
            finally:
                st['done'] = True
                self._switch(st, finishing=True)
        st['thread'] = threading.Thread(target=run, name=name, daemon=True)
        self.threads[name] = st

    def me(self):
        return getattr(self.tls, 'st', None)

    def runnable(self):
        return [s for s in self.threads.values() if not s['done'] and s['blocked'] is None]

    # ------------------------------------------------------------------ scheduling
    def _pick(self, r, st):
        if self.strategy == 'random':
            return self.rng.choice(r)
        if self.strategy == 'sticky':
            if st in r and self.rng.random() < self.stick:
                return st
            return self.rng.choice(r)
        return max(r, key=lambda s: self.prio[s['name']])

    def _switch(self, st, finishing=False):
        self.steps += 1
        if self.steps > self.max_steps and not self.livelock:
            self.livelock = True
            self.done_evt.set()
        if self.change_points and self.steps >= self.change_points[0]:
            self.change_points.pop(0)
            self.prio[st['name']] = -len(self.change_points) - 1
        r = self.runnable()
        if not r:
            if all(s['done'] for s in self.threads.values()):
                self.done_evt.set()
                return
            self.deadlock = [(s['name'], repr(s['blocked'])[:80]) for s in self.threads.values() if not s['done']]
            self.done_evt.set()
            if not finishing:
                st['sem'].acquire()
            return
        if self.parked and all(s['done'] or s['blocked'] is not None or s['name'] == self.park[0] for s in self.threads.values()):
            # everybody else finished or is blocked: the parked thread may go on
            self.prio[self.park[0]] = 1000
            self.parked = False
        if self.held and all(s['done'] or s['blocked'] is not None or s['name'] in self.held for s in self.threads.values()):
            for n in self.held:
                self.prio[n] = 900
            self.held = set()
        nxt = self._pick(r, st)
        self.trace.append(nxt['name'])
        if nxt is st:
            return
        self.switches += 1
        nxt['sem'].release()
        if not finishing:
            st['sem'].acquire()

    def yield_point(self, tag=''):
        st = self.me()
        if st is None or not self.active:
            return
        self._switch(st)

    def at_line(self, code, line):
        st = self.me()
        if st is None or not self.active:
            return
        key = (st['name'], code.co_filename.rsplit('/', 1)[-1], line)
        self.locs[key] = self.locs.get(key, 0) + 1
        self._rendezvous(st, key)
        if self.park is not None and key == tuple(self.park[:3]) and not self.parked:
            self.occ += 1
            if self.occ == self.park[3]:
                self.prio[st['name']] = -100
                self.parked = True
        if self.strategy in ('random', 'sticky'):
            self._switch(st)
        else:
            r = self.runnable()
            if r and self.prio[st['name']] < max(self.prio[s['name']] for s in r):
                self._switch(st)
            elif self.change_points:
                self.steps += 1
                if self.steps >= self.change_points[0]:
                    self._switch(st)

    def _rendezvous(self, st, key):
        if self.rdv is None:
            return
        a, b = self.rdv
        n = self.locs[key]
        if key == tuple(b[:3]) and n == b[3]:
            self.rdv_b = True
            self.prio[st['name']] = -200
            self.held.add(st['name'])
            if a[0] in self.held:
                self.held.discard(a[0])
                self.prio[a[0]] = 1000
                self.rdv_met = True
        elif key == tuple(a[:3]) and n == a[3] and not self.rdv_b:
            self.prio[st['name']] = -100
            self.held.add(st['name'])

    def at_io(self, kind):
        """a raw I/O call is about to be made: a location like a statement start, named (thread, 'io', call name)"""
        st = self.me()
        if st is None or not self.active:
            return
        key = (st['name'], 'io', kind)
        self.locs[key] = self.locs.get(key, 0) + 1
        self._rendezvous(st, key)
        if self.park is not None and key == tuple(self.park[:3]) and not self.parked:
            self.occ += 1
            if self.occ == self.park[3]:
                self.prio[st['name']] = -100
                self.parked = True
        self._switch(st)

    def block(self, st, on):
        st['blocked'] = on
        self._switch(st)

    def wake(self, on):
        for s in self.threads.values():
            if s['blocked'] is on:
                s['blocked'] = None

    def run(self, timeout=60):
        names = list(self.threads)
        self.rng.shuffle(names)
        for i, n in enumerate(names):
            self.prio[n] = i + 10
        # The cyclic collector runs finalizers and weak reference callbacks (a Blob's removes its temporary file, a raw I/O call
        # and so a scheduling point) in whatever thread happens to allocate, inside the scheduler's own hand-over included, and
        # at points that differ from run to run.  Worlds are short: collect before, keep the collector off while the baton is
        # in use, collect afterwards (so that no world's garbage is finalized inside a later one).
        import gc
        gc.collect()
        gc.disable()
        Sched.cur = self
        self.active = True
        for s in self.threads.values():
            s['thread'].start()
        first = self._pick(list(self.threads.values()), None)
        self.trace.append(first['name'])
        first['sem'].release()
        try:
            ok = self.done_evt.wait(timeout)
        finally:
            self.active = False
            Sched.cur = None
            gc.enable()
        if self.deadlock or self.livelock or not ok:
            # let stuck threads run off (they are daemons); real locks may stay held: the caller discards this world
            for s in self.threads.values():
                s['sem'].release()
        else:
            for s in self.threads.values():
                s['thread'].join(5)
        return ok

    def digest(self):
        return hashlib.sha1(' '.join(self.trace).encode()).hexdigest()[:12]

    def failures(self):
        out = []
        if self.deadlock:
            out.append(('deadlock', self.deadlock))
        if self.livelock:
            out.append(('step-bound-exceeded', self.steps))
        for n, st in self.threads.items():
            if st['exc'] is not None:
                out.append(('thread-exception', n, type(st['exc']).__name__, repr(st['exc'])[:200]))
        return out



class FreeSched:
    """Same client API as Sched, but nothing is scheduled: real threads, real locks, the interpreter preempts at bytecode
    granularity (switch interval 1 us).  Not reproducible; complements the baton scheduler, whose finest grain is a statement
    start.  Must be used in a process where install() was never called."""

    def __init__(self, seed, **kw):
        self.rng = random.Random(seed)
        self.threads = {}
        self.events = []
        self._lk = _RealLock()
        self.start_evt = threading.Event()
        self.switches = 0
        self.steps = 0
        self.trace = []
        self.locs = {}
        self.stuck = []

    def log(self, *ev):
        with self._lk:
            self.events.append((len(self.events),) + ev)
            return len(self.events) - 1

    def spawn(self, name, fn):
        st = dict(name=name, exc=None, done=False)

        def run():
            self.start_evt.wait()
            try:
                fn()
            except BaseException as e:
                st['exc'] = e
            finally:
                st['done'] = True
        st['thread'] = threading.Thread(target=run, name=name, daemon=True)
        self.threads[name] = st

    def yield_point(self, tag=''):
        pass

    def run(self, timeout=60):
        import time
        old = sys.getswitchinterval()
        sys.setswitchinterval(1e-6)
        try:
            for st in self.threads.values():
                st['thread'].start()
            self.start_evt.set()
            end = time.monotonic() + timeout
            for st in self.threads.values():
                st['thread'].join(max(0.0, end - time.monotonic()))
        finally:
            sys.setswitchinterval(old)
        self.stuck = [n for n, st in self.threads.items() if not st['done']]
        return not self.stuck

    def digest(self):
        return hashlib.sha1(repr([e[1:] for e in self.events]).encode()).hexdigest()[:12]

    def failures(self):
        out = []
        if self.stuck:
            out.append(('threads-still-running-at-the-watchdog', self.stuck))
        for n, st in self.threads.items():
            if st['exc'] is not None:
                out.append(('thread-exception', n, type(st['exc']).__name__, repr(st['exc'])[:200]))
        return out


def _ctx():
    s = Sched.cur
    if s is None or not s.active:
        return None, None
    st = s.me()
    if st is None:
        return None, None
    return s, st


class SLock:
    def __init__(self):
        self._l = _RealLock()

    def acquire(self, blocking=True, timeout=-1):
        s, st = _ctx()
        if s is None:
            return self._l.acquire(blocking, timeout)
        s.yield_point('acq')
        while not self._l.acquire(False):
            if not blocking:
                return False
            s.block(st, self)
        return True

    def release(self):
        self._l.release()
        s, st = _ctx()
        if s is not None:
            s.wake(self)
            s.yield_point('rel')

    def locked(self):
        return self._l.locked()

    __enter__ = acquire

    def __exit__(self, *a):
        self.release()


class SRLock:
    def __init__(self):
        self._l = SLock()
        self._owner = None
        self._count = 0

    def acquire(self, blocking=True, timeout=-1):
        me = threading.get_ident()
        if self._owner == me:
            self._count += 1
            return True
        r = self._l.acquire(blocking, timeout)
        if r:
            self._owner = me
            self._count = 1
        return r

    def release(self):
        if self._owner != threading.get_ident():
            raise RuntimeError("cannot release un-acquired lock")
        self._count -= 1
        if not self._count:
            self._owner = None
            self._l.release()

    __enter__ = acquire

    def __exit__(self, *a):
        self.release()

    def _release_save(self):
        c = self._count
        self._count = 0
        self._owner = None
        self._l.release()
        return c

    def _acquire_restore(self, c):
        self._l.acquire()
        self._owner = threading.get_ident()
        self._count = c

    def locked(self):
        return self._l.locked()


class SCondition:
    def __init__(self, lock=None):
        self._lock = lock or SRLock()
        self.acquire = self._lock.acquire
        self.release = self._lock.release
        self._waiters = []

    def __enter__(self):
        return self._lock.acquire()

    def __exit__(self, *a):
        self._lock.release()

    def wait(self, timeout=None):
        s, st = _ctx()
        if s is None:
            raise RuntimeError('condition wait outside the scheduler')
        token = object()
        self._waiters.append(token)
        saved = self._lock._release_save()
        while token in self._waiters:
            s.block(st, token)
        self._lock._acquire_restore(saved)
        return True

    def notify(self, n=1):
        s = Sched.cur
        for t in self._waiters[:n]:
            self._waiters.remove(t)
            if s:
                s.wake(t)

    def notify_all(self):
        self.notify(len(self._waiters))

    notifyAll = notify_all


_line_codes = []


def install(line_modules=(), io_yields=True):
    """rebind ZODB's lock factories; optionally make every statement start of the given modules a yield point"""
    import types
    import ZODB.utils
    import ZODB.mvccadapter
    ZODB.utils.Lock = SLock
    ZODB.utils.RLock = SRLock
    ZODB.utils.Condition = SCondition
    ZODB.mvccadapter.Lock = SLock
    if io_yields:
        from zv import recfs

        def on_io(kind, path):
            s = Sched.cur
            if s is not None:
                s.at_io(kind)
        recfs.LOG.on_io = on_io
    if line_modules:
        mon = sys.monitoring
        try:
            mon.use_tool_id(TOOL, 'zv')
        except ValueError:
            pass

        def on_line(code, line):
            s = Sched.cur
            if s is not None:
                s.at_line(code, line)
        mon.register_callback(TOOL, mon.events.LINE, on_line)
        for mod in line_modules:
            for name, obj in list(vars(mod).items()):
                objs = [obj]
                if isinstance(obj, type) and obj.__module__ == mod.__name__:
                    objs = list(vars(obj).values())
                for o in objs:
                    f = getattr(o, '__func__', o)
                    if isinstance(f, property):
                        f = f.fget
                    # decorated functions (contextlib.contextmanager, functools.wraps): the body is in __wrapped__; the wrapper's
                    # own code object belongs to the decorator's module and must not be instrumented
                    while isinstance(f, types.FunctionType) and hasattr(f, '__wrapped__'):
                        f = f.__wrapped__
                    if isinstance(f, types.FunctionType) and f.__module__ == mod.__name__ and \
                            f.__code__.co_filename == getattr(mod, '__file__', f.__code__.co_filename):
                        mon.set_local_events(TOOL, f.__code__, mon.events.LINE)
                        _line_codes.append(f.__code__)


def selftest():
    # determinism: same seed => same decision trace; a lost-update race is found by some schedule
    def world(seed):
        box = {'v': 0}
        lk = SLock()
        s = Sched(seed, 'sticky', stick=0.5)

        def w():
            for _ in range(3):
                with lk:
                    x = box['v']
                s.yield_point()
                with lk:
                    box['v'] = x + 1
        s.spawn('a', w)
        s.spawn('b', w)
        assert s.run(10) and not s.failures()
        return s.digest(), box['v']
    r1 = [world(i) for i in range(20)]
    r2 = [world(i) for i in range(20)]
    assert r1 == r2, 'scheduler is not deterministic'
    assert any(v < 6 for d, v in r1), 'no interleaving explored'
