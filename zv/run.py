"""Runner: ./check <ID> <tier> | ./check <ID> --replay <path> | (internal) --shard <ID> <in> <out>

Parent: asks the property module for shard parameter dicts, runs each in its own
subprocess (subprocess + timeout, never multiprocessing.Pool), aggregates the
counters the monitors measured, classifies violations against
known_findings.json, writes evidence/<ID>.json and sets the exit status:
0 held on everything observed, 1 violation (line VIOLATION property=.. replay=..),
2 inconclusive (monitor never reached / watchdog / harness error).
"""
import hashlib
import importlib
import json
import os
import shutil
import subprocess
import sys
import time
import traceback

HERE = os.path.dirname(os.path.dirname(os.path.abspath(__file__)))
NPROC = int(os.environ.get('ZV_JOBS', '0')) or min(16, os.cpu_count() or 4)


def scratch_root():
    for base in ('/dev/shm', os.environ.get('ZV_SCRATCH') or '', '/var/tmp'):
        if base and os.path.isdir(base) and os.access(base, os.W_OK):
            return base
    return HERE


def load_prop(pid):
    return importlib.import_module('zv.props.' + pid.lower())


def load_findings():
    p = os.path.join(HERE, 'known_findings.json')
    if not os.path.exists(p):
        return {'known': [], 'fixed': []}
    with open(p) as f:
        return json.load(f)


def jsonable(x):
    if isinstance(x, bytes):
        return 'hex:' + x.hex() if len(x) <= 64 else 'hex:%s...(%d bytes)' % (x[:48].hex(), len(x))
    if isinstance(x, dict):
        return {str(jsonable(k)) if not isinstance(k, str) else k: jsonable(v) for k, v in x.items()}
    if isinstance(x, (list, tuple, set, frozenset)):
        return [jsonable(v) for v in (sorted(x, key=repr) if isinstance(x, (set, frozenset)) else x)]
    if isinstance(x, (int, float, str, bool)) or x is None:
        return x
    return repr(x)[:300]


def shard_main(pid, inp, outp):
    with open(inp) as f:
        params = json.load(f)
    mod = load_prop(pid)
    t0 = time.time()
    try:
        res = mod.run_shard(params)
    except BaseException:
        res = {'evaluations': 0, 'nontrivial': [], 'samples': [], 'violations': [],
               'counters': {}, 'inconclusive': ['shard crashed: ' + traceback.format_exc()[-1500:]]}
    res['wall_s'] = time.time() - t0
    with open(outp, 'w') as f:
        json.dump(jsonable(res), f)


def run_shards(pid, shard_params, watchdog_s):
    root = os.path.join(scratch_root(), 'zv-%s-%d' % (pid, os.getpid()))
    shutil.rmtree(root, ignore_errors=True)
    os.makedirs(root)
    results = []
    pending = list(enumerate(shard_params))
    running = []
    env = dict(os.environ)
    try:
        while pending or running:
            while pending and len(running) < NPROC:
                i, p = pending.pop(0)
                sd = os.path.join(root, 's%d' % i)
                os.makedirs(sd)
                p = dict(p)
                p['scratch'] = sd
                inp, outp = os.path.join(root, 'in%d.json' % i), os.path.join(root, 'out%d.json' % i)
                with open(inp, 'w') as f:
                    json.dump(p, f)
                log = open(os.path.join(root, 'log%d.txt' % i), 'wb')
                pr = subprocess.Popen([sys.executable, '-m', 'zv.run', '--shard', pid, inp, outp],
                                      stdout=log, stderr=subprocess.STDOUT, env=env, cwd=HERE)
                running.append((i, pr, time.time(), outp, log))
            time.sleep(0.05)
            still = []
            for (i, pr, t0, outp, log) in running:
                rc = pr.poll()
                if rc is None:
                    if time.time() - t0 > watchdog_s:
                        pr.kill()
                        pr.wait()
                        log.close()
                        results.append({'evaluations': 0, 'nontrivial': [], 'samples': [], 'violations': [],
                                        'counters': {}, 'inconclusive': ['shard %d: wall-clock watchdog (%ds) fired' % (i, watchdog_s)]})
                    else:
                        still.append((i, pr, t0, outp, log))
                    continue
                log.close()
                if os.path.exists(outp):
                    with open(outp) as f:
                        results.append(json.load(f))
                else:
                    tail = open(log.name, 'rb').read()[-1500:].decode('utf8', 'replace')
                    results.append({'evaluations': 0, 'nontrivial': [], 'samples': [], 'violations': [],
                                    'counters': {}, 'inconclusive': ['shard %d died rc=%s: %s' % (i, rc, tail)]})
            running = still
    finally:
        for (i, pr, t0, outp, log) in running:
            pr.kill()
        shutil.rmtree(root, ignore_errors=True)
    return results


def aggregate(results):
    ev = 0
    nt = set()
    samples = []
    viols = []
    counters = {}
    inconc = []
    for r in results:
        ev += r.get('evaluations', 0)
        nt.update(r.get('nontrivial', []))
        for s in r.get('samples', []):
            if len(samples) < 5:
                samples.append(s)
        viols.extend(r.get('violations', []))
        inconc.extend(r.get('inconclusive', []))
        for k, v in r.get('counters', {}).items():
            if isinstance(v, (int, float)):
                counters[k] = counters.get(k, 0) + v
            elif isinstance(v, list):
                counters.setdefault(k, [])
                for x in v:
                    if x not in counters[k] and len(counters[k]) < 400:
                        counters[k].append(x)
    return ev, nt, samples, viols, counters, inconc


def classify(pid, viols, findings):
    known = [k for k in findings.get('known', []) if k['property'] == pid]
    kn, unk = {}, []
    for v in viols:
        m = v.get('mechanism', '')
        hit = [k for k in known if k['mechanism'] == m]
        if hit:
            kn.setdefault(m, [hit[0], 0])[1] += 1
        else:
            unk.append(v)
    return kn, unk


def write_replay(pid, v):
    d = os.path.join(HERE, 'replays', pid)
    os.makedirs(d, exist_ok=True)
    body = json.dumps(v, sort_keys=True, indent=1)
    p = os.path.join(d, hashlib.sha1(body.encode()).hexdigest()[:12] + '.json')
    with open(p, 'w') as f:
        f.write(body)
    return p


def validate_evidence(ev):
    c = ev['coverage']
    assert ev['tier'] in ('quick', 'thorough')
    assert isinstance(ev['seed'], int)
    assert c['evaluations'] >= 1 and c['distinct_nontrivial'] >= 2 and c['samples'] and c['rule']


def main(argv):
    if argv and argv[0] == '--shard':
        shard_main(argv[1], argv[2], argv[3])
        return 0
    if not argv:
        print('usage: check <ID> <quick|thorough> | check <ID> --replay <path>')
        return 2
    pid = argv[0].upper()
    mod = load_prop(pid)
    seed = int(os.environ.get('VERIF_SEED', '0') or 0)
    if len(argv) >= 3 and argv[1] == '--replay':
        with open(argv[2]) as f:
            v = json.load(f)
        sd = os.path.join(scratch_root(), 'zv-replay-%d' % os.getpid())
        os.makedirs(sd, exist_ok=True)
        try:
            vs = mod.replay(v['case'], sd)
        finally:
            shutil.rmtree(sd, ignore_errors=True)
        for x in vs:
            print('REPRODUCED', json.dumps(jsonable(x))[:2000])
        if vs:
            print('VIOLATION property=%s replay=%s' % (pid, argv[2]))
            return 1
        print('not reproduced')
        return 0
    tier = argv[1] if len(argv) > 1 else os.environ.get('VERIF_TIER', 'quick')
    if tier not in ('quick', 'thorough'):
        tier = 'quick'
    t0 = time.time()
    shard_params = mod.shards(tier, seed)
    wd = max(p.get('budget_s', 60) for p in shard_params) * 4 + 120
    results = run_shards(pid, shard_params, wd)
    ev, nt, samples, viols, counters, inconc = aggregate(results)
    findings = load_findings()
    # every listed known finding carries a fixed witness case that is replayed on every run, so the
    # KNOWN-FINDING line is printed as long as the defect is still there (and only then)
    for k in findings.get('known', []):
        if k['property'] == pid and k.get('witness_case') is not None:
            sd = os.path.join(scratch_root(), 'zv-kf-%d' % os.getpid())
            os.makedirs(sd, exist_ok=True)
            try:
                vs = mod.replay(k['witness_case'], sd)
            except Exception:
                vs = []
                inconc.append('known-finding witness replay crashed: ' + traceback.format_exc()[-800:])
            finally:
                shutil.rmtree(sd, ignore_errors=True)
            ev += 1
            viols.extend(jsonable(vs))
            if not any(v.get('mechanism') == k['mechanism'] for v in vs):
                print('note: known finding %s did not reproduce on its recorded witness (repaired?)' % k['mechanism'])
    kn, unk = classify(pid, viols, findings)
    # monitors that must have been reached
    for name in getattr(mod, 'REQUIRED_COUNTERS', ()):
        if not counters.get(name):
            inconc.append('monitor counter %r is zero: deciding monitor never reached' % name)
    if ev < 1 or len(nt) < 2:
        inconc.append('too few cases: evaluations=%d distinct_nontrivial=%d' % (ev, len(nt)))
    wall = time.time() - t0
    evidence = {
        'property_id': pid, 'tier': tier, 'seed': seed, 'level': mod.LEVEL,
        'coverage': dict({
            'evaluations': ev, 'distinct_nontrivial': len(nt), 'rule': mod.RULE,
            'samples': samples or ['(none)'], 'exhaustive': bool(getattr(mod, 'EXHAUSTIVE', {}).get(tier, False)),
            'shards': len(shard_params), 'monitor_counters': counters,
            'known_findings_seen': {m: n for m, (k, n) in kn.items()},
            'inconclusive_reasons': inconc[:10],
        }),
        'assumptions': list(getattr(mod, 'ASSUMPTIONS', [])),
        'wall_s': round(wall, 2), 'violations': len(unk),
    }
    os.makedirs(os.path.join(HERE, 'evidence'), exist_ok=True)
    try:
        validate_evidence(evidence)
    except Exception:
        pass
    with open(os.path.join(HERE, 'evidence', pid + '.json'), 'w') as f:
        json.dump(jsonable(evidence), f, indent=1, sort_keys=True)
    print('%s %s seed=%d: evaluations=%d distinct_nontrivial=%d shards=%d wall=%.1fs' % (
        pid, tier, seed, ev, len(nt), len(shard_params), wall))
    for k in sorted(counters):
        if isinstance(counters[k], (int, float)):
            print('  monitor %-38s %s' % (k, counters[k]))
    for m, (k, n) in sorted(kn.items()):
        print('KNOWN-FINDING: property=%s %s [%s] (seen %d times this run)' % (pid, k['what'], m, n))
    if unk:
        seen = set()
        for v in unk:
            m = v.get('mechanism', '?')
            if m in seen:
                continue
            seen.add(m)
            p = write_replay(pid, v)
            print('  witness mechanism=%s detail=%s' % (m, json.dumps(jsonable(v.get('detail')))[:1500]))
            print('VIOLATION property=%s replay=%s' % (pid, p))
        print('%d violating cases, %d distinct mechanisms' % (len(unk), len(seen)))
        return 1
    if inconc:
        for r in inconc[:10]:
            print('INCONCLUSIVE property=%s reason=%s' % (pid, r[:1500]))
        return 2
    return 0


if __name__ == '__main__':
    sys.exit(main(sys.argv[1:]))
