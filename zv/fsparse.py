"""Independent reader of the FileStorage 'FS21' on-disk format (no ZODB code used).

parse(bytes) -> (transactions, end, problems)
  transaction = dict(pos, tid, tlen, status, user, desc, ext, records=[dict(pos, oid, tid, prev, tloc, plen, back, data)])
  end      = offset just past the last complete, structurally valid transaction
  problems = structural defects found in the valid prefix (bad back pointers, prev chain, tid order ...)
"""
import struct

THDR = struct.Struct('>8sQcHHH')
DHDR = struct.Struct('>8s8sQQHQ')


def parse(b, start=4, stop_on_c=True):
    txns = []
    problems = []
    if b[:4] != b'FS21' and b[:4] != b'FS30':
        return txns, 0, ['bad magic']
    pos = start
    last_tid = b'\0' * 8
    lastrec = {}          # oid -> pos of latest record
    n = len(b)
    while pos + THDR.size <= n:
        tid, tlen, status, ul, dl, el = THDR.unpack_from(b, pos)
        status = status.decode('latin-1')
        if pos + tlen + 8 > n or tlen < THDR.size + ul + dl + el:
            break
        if status == 'c' and stop_on_c:
            break
        if struct.unpack_from('>Q', b, pos + tlen)[0] != tlen:
            break
        if status not in ' pu':
            problems.append(('bad status', pos, status))
        if tid <= last_tid:
            problems.append(('tid not increasing', pos))
        last_tid = tid
        p = pos + THDR.size
        user = b[p:p + ul]
        desc = b[p + ul:p + ul + dl]
        ext = b[p + ul + dl:p + ul + dl + el]
        p += ul + dl + el
        recs = []
        tend = pos + tlen
        ok = True
        while p < tend:
            if p + DHDR.size > tend:
                ok = False
                break
            oid, rtid, prev, tloc, vlen, plen = DHDR.unpack_from(b, p)
            back = 0
            if plen:
                data = b[p + DHDR.size:p + DHDR.size + plen]
                rl = DHDR.size + plen
            else:
                back = struct.unpack_from('>Q', b, p + DHDR.size)[0]
                data = None
                rl = DHDR.size + 8
            if p + rl > tend:
                ok = False
                break
            if tloc != pos:
                problems.append(('tloc', p))
            if vlen:
                problems.append(('vlen', p))
            if status != 'u':
                if prev != lastrec.get(oid, 0):
                    problems.append(('prev chain', p, prev, lastrec.get(oid, 0)))
                if back:
                    if back >= p:
                        problems.append(('back pointer forward', p))
                    elif b[back:back + 8] != oid:
                        problems.append(('back pointer to other oid', p))
            recs.append(dict(pos=p, oid=oid, tid=rtid, prev=prev, tloc=tloc, plen=plen, back=back, data=data))
            p += rl
        if not ok or p != tend:
            break
        if status != 'u':
            for r in recs:
                lastrec[r['oid']] = r['pos']
        txns.append(dict(pos=pos, tid=tid, tlen=tlen, status=status, user=user, desc=desc, ext=ext, records=recs))
        pos = tend + 8
    return txns, pos, problems


def resolve(b, rec):
    """data of a record following back pointers; None for an un-creation"""
    while True:
        if rec['plen']:
            return rec['data']
        if not rec['back']:
            return None
        p = rec['back']
        oid, rtid, prev, tloc, vlen, plen = DHDR.unpack_from(b, p)
        back = 0 if plen else struct.unpack_from('>Q', b, p + DHDR.size)[0]
        rec = dict(plen=plen, back=back, data=b[p + DHDR.size:p + DHDR.size + plen] if plen else None)


def canon_txns(b, txns):
    """[(tid, status, user, desc, ext, [(oid, data|None)])] like spec.txn_canon"""
    return [(t['tid'], t['status'], t['user'], t['desc'], t['ext'], [(r['oid'], resolve(b, r)) for r in t['records']])
            for t in txns if t['status'] != 'u']


def selftest():
    txns, end, problems = parse(b'FS21')
    assert txns == [] and end == 4 and not problems
