"""E4 Spec: a storage is the ordered list of its committed transactions.

Spec      -- the model (list of Txn); derived answers in SpecQ
battery() -- asks the real storage the whole query battery and compares with SpecQ
model_undo() -- the undo rule of C06 over Spec
Written from ZODB/interfaces.py; per-kind adapters state documented differences.
"""
import base64

import zodbpickle.pickle as zp

from ZODB.POSException import POSKeyError
from ZODB.utils import p64, u64, z64, maxtid


class Txn:
    __slots__ = ('tid', 'status', 'user', 'desc', 'ext', 'records')

    def __init__(self, tid, status, user, desc, ext, records):
        self.tid, self.status, self.user, self.desc, self.ext = tid, status, user, desc, ext
        self.records = records      # list of (oid, data|None)   None = un-creation / deletion

    def canon(self):
        return (self.tid, self.status, self.user, self.desc, self.ext, [(o, d) for (o, d) in self.records])


def ext_bytes(d):
    return zp.dumps(d, 3) if d else b''


class Spec:
    def __init__(self, txns=None):
        self.txns = list(txns or [])

    def copy(self, n=None):
        return Spec(self.txns if n is None else self.txns[:n])

    def revs(self, oid):
        """[(tid, data)] in commit order; several records of one oid in a txn count as the last"""
        out = []
        for t in self.txns:
            last = None
            for (o, d) in t.records:
                if o == oid:
                    last = (t.tid, d)
            if last is not None:
                out.append(last)
        return out

    def oids(self):
        return sorted({o for t in self.txns for (o, d) in t.records})

    def current(self, oid):
        r = self.revs(oid)
        return r[-1] if r else None

    def txn(self, tid):
        for t in self.txns:
            if t.tid == tid:
                return t
        return None

    def last_tid(self):
        return self.txns[-1].tid if self.txns else z64

    def state_at(self, before):
        """oid -> data for snapshot `before` (exclusive), un-created objects omitted"""
        st = {}
        for t in self.txns:
            if t.tid >= before:
                break
            for (o, d) in t.records:
                if d is None:
                    st.pop(o, None)
                else:
                    st[o] = d
        return st

    def dump(self):
        """reduced canonical state: iterator view + current loads + last tid"""
        it = [t.canon() for t in self.txns]
        cur = {}
        for o in self.oids():
            tid, d = self.current(o)
            cur[o] = ('POSKeyError',) if d is None else ('ok', (d, tid))
        return it, cur, self.last_tid()


# ---------------------------------------------------------------------- undo model
class UndoRefused(Exception):
    pass


class UndoEither(Exception):
    """corner where the statement gives no verdict (see DESIGN C06 S)"""


def model_undo(spec, tids, resolver=None):
    """Records of a transaction undoing `tids` (in that order) on top of spec.

    resolver(oid, old, committed, new) -> merged data or None (cannot merge).
    Raises UndoRefused when the model says the undo must fail."""
    pending = {}          # oid -> data written earlier in this undo transaction
    out = []
    failures = set()
    either = False
    for tid in tids:
        u = spec.txn(tid)
        if u is None or u.status != ' ':
            raise UndoRefused('not undoable')
        pending_call = {}
        for idx, (o, undone) in enumerate(u.records):
            # a transaction may hold several records of one oid (a multi-undo transaction): each is
            # processed in file order, a failure is forgiven if a later record of the same oid succeeds
            last_occ = idx == max(i for i, (x, _) in enumerate(u.records) if x == o)
            failures.discard(o)
            revs = spec.revs(o)
            k = [i for i, (t, _) in enumerate(revs) if t == tid][0]
            pre = revs[k - 1][1] if k > 0 else None
            has_pre = k > 0
            if o in pending:
                cur = pending[o]
                is_cur = False
            else:
                cur = revs[-1][1]
                is_cur = last_occ and (k == len(revs) - 1)
            if not isinstance(cur, (bytes, type(None))):
                raise UndoEither()        # current state is a model-side merge result of an earlier call: bytes unknown
            if is_cur or cur == undone:
                if not is_cur and undone is None:
                    # un-creation that is not current: FileStorage cannot read "the data being undone" and
                    # refuses this record; the statement gives no verdict -> outcome adopted from the run
                    raise UndoEither()
                new = pre if has_pre else None
            else:
                if not last_occ:
                    # a superseded duplicate record inside the undone transaction needs a merge: FileStorage
                    # merges it against the transaction's *last* record of the oid; the dead record's fate is
                    # not observable in the final state -> no verdict, outcome adopted
                    raise UndoEither()
                if not has_pre:
                    failures.add(o)
                    continue
                merged = None
                if resolver is not None and undone is not None and cur is not None and pre is not None:
                    merged = resolver(o, undone, cur, pre)
                if merged is None:
                    failures.add(o)
                    continue
                new = merged
            pending_call[o] = new
            out.append((o, new))
        if failures:          # each storage-level undo() call fails on its own
            raise UndoRefused('later conflicting change')
        pending.update(pending_call)   # records written by one undo() call become visible to the next call only
    return out


# ---------------------------------------------------------------------- answers
def canon(f, *a, **k):
    try:
        return ('ok', f(*a, **k))
    except POSKeyError:
        return ('POSKeyError',)
    except KeyError:
        return ('KeyError',)
    except Exception as e:
        return ('EXC', type(e).__name__, str(e)[:80])


def tid_points(tids):
    pts = {z64, p64(1), maxtid}
    for t in tids:
        n = u64(t)
        pts.update({p64(n - 1), t, p64(n + 1)})
    return sorted(pts)


class SpecQ:
    """answers derived from a Spec; kind in {'file','mapping','demo'}"""

    def __init__(self, spec, kind='file', nchanges_oids=None):
        self.s = spec
        self.kind = kind
        self._revs = {}
        self.nchanges_oids = nchanges_oids

    def revs(self, oid):
        r = self._revs.get(oid)
        if r is None:
            r = self._revs[oid] = self.s.revs(oid)
        return r

    def load(self, oid):
        r = self.revs(oid)
        if not r or r[-1][1] is None:
            return ('POSKeyError',)
        return ('ok', (r[-1][1], r[-1][0]))

    def loadBefore(self, oid, tid):
        r = self.revs(oid)
        if not r:
            return ('POSKeyError',)
        before = [x for x in r if x[0] < tid]
        if not before:
            return ('ok', None)
        t, d = before[-1]
        after = [x for x in r if x[0] >= tid]
        if d is None:
            return ('POSKeyError',)
        return ('ok', (d, t, after[0][0] if after else None))

    def loadSerial(self, oid, serial):
        for t, d in self.revs(oid):
            if t == serial:
                return ('ok', d) if d is not None else ('POSKeyError',)
        return ('POSKeyError',)

    def getTid(self, oid):
        r = self.revs(oid)
        if not r or r[-1][1] is None:
            return ('POSKeyError',)
        return ('ok', r[-1][0])

    def lastTransaction(self):
        return ('ok', self.s.last_tid())

    def length(self):
        if self.nchanges_oids is not None:
            return ('ok', self.nchanges_oids)
        return ('ok', len(self.s.oids()))

    def history(self, oid, size):
        r = self.revs(oid)
        if not r:
            return ('POSKeyError',)
        out = []
        for t, d in reversed(r):
            if len(out) >= size:
                break
            tx = self.s.txn(t)
            out.append((t, tx.user, tx.desc, tx.ext))
        return ('ok', out)

    def iterator(self, start, stop):
        out = []
        for t in self.s.txns:
            if start is not None and t.tid < start:
                continue
            if stop is not None and t.tid > stop:
                continue
            out.append(t.canon())
        return ('ok', out)

    def undoLog(self, first, last):
        out = []
        for t in reversed(self.s.txns):
            if t.status == 'p':
                break
            if t.status != ' ':
                continue
            out.append((t.tid, t.user, t.desc))
        if last < 0:
            last = first - last
        return ('ok', out[first:last])

    def iternext(self):
        out = []
        for o in self.s.oids():
            out.append((o,) + self.load(o))
        return out


# ---------------------------------------------------------------------- real side
def real_history(st, oid, size):
    def f():
        out = []
        for h in st.history(oid, size):
            if 'extension' in h and isinstance(h.get('extension'), dict):     # MappingStorage form
                ext = h['extension']
            else:
                ext = {k: v for k, v in h.items()
                       if k not in ('time', 'user_name', 'description', 'tid', 'size', 'serial')}
            out.append((h['tid'], h['user_name'], h['description'], ext_bytes(ext)))
        return out
    return canon(f)


def txn_canon(t):
    eb = getattr(t, 'extension_bytes', None)
    if eb is None:
        eb = ext_bytes(t.extension)
    return (t.tid, t.status, t.user, t.description, eb, [(r.oid, r.data) for r in t])


def real_iter(st, start, stop):
    def f():
        it = st.iterator(start, stop)
        out = [txn_canon(t) for t in it]
        if hasattr(it, 'close'):
            it.close()
        return out
    return canon(f)


def real_undolog(st, first, last):
    return canon(lambda: [(base64.decodebytes(d['id'] + b'\n'), d['user_name'], d['description'])
                          for d in st.undoLog(first, last)])


def real_iternext(st):
    out = []
    nxt = None
    try:
        while True:
            oid, tid, data, nxt = st.record_iternext(nxt)
            out.append((oid, 'ok', (data, tid)))
            if nxt is None:
                break
    except POSKeyError:
        out.append(('POSKeyError-in-iternext',))
    except ValueError:
        pass
    return out


def real_dump(st):
    """reduced state (matches Spec.dump())"""
    it = st.iterator()
    txns = [txn_canon(t) for t in it]
    if hasattr(it, 'close'):
        it.close()
    cur = {}
    for o in sorted({o for t in txns for (o, d) in t[5]}):
        cur[o] = canon(st.load, o)
    return txns, cur, st.lastTransaction()


def battery(st, spec, kind='file', full=True, extra_oids=(), counter=None, nchanges_oids=None, min_tid=None,
            iternext=True, undolog=True, absent_equiv=False):
    """Compare every query with the model. Returns (n_queries, diffs[list of (name, real, model)])."""
    q = SpecQ(spec, kind, nchanges_oids)
    diffs = []
    n = 0
    oids = spec.oids() + [p64(0xfffe)] + list(extra_oids)
    tids = [t.tid for t in spec.txns]
    pts = tid_points(tids)
    if min_tid is not None:
        pts = [p for p in pts if p > min_tid]

    def short(x):
        r = repr(x)
        return x if len(r) < 400 else r[:400]

    def chk(name, real, exp):
        nonlocal n
        n += 1
        if absent_equiv and name[0] == 'loadBefore':
            # layered storages: "no revision before tid" and "does not exist" both mean absent at that snapshot
            real = ('absent',) if real in (('ok', None), ('POSKeyError',)) else real
            exp = ('absent',) if exp in (('ok', None), ('POSKeyError',)) else exp
        if real != exp:
            diffs.append((name, short(real), short(exp)))
    for o in oids:
        chk(('load', u64(o)), canon(st.load, o), q.load(o))
        chk(('getTid', u64(o)), canon(st.getTid, o), q.getTid(o))
        for p in pts:
            chk(('loadBefore', u64(o), u64(p)), canon(st.loadBefore, o, p), q.loadBefore(o, p))
        if full:
            for t in tids + [p64(5)]:
                if min_tid is not None and t <= min_tid:
                    continue
                chk(('loadSerial', u64(o), u64(t)), canon(st.loadSerial, o, t), q.loadSerial(o, t))
            if min_tid is None:
                for size in (1, 2, 1000):
                    chk(('history', u64(o), size), real_history(st, o, size), q.history(o, size))
    chk(('lastTransaction',), canon(st.lastTransaction), q.lastTransaction())
    if min_tid is None:
        chk(('len',), canon(len, st), q.length())
    ranges = [(None, None)]
    if full:
        ranges += [(x, None) for x in pts[:6]] + [(None, x) for x in pts[-6:]]
        if tids:
            ranges.append((tids[len(tids) // 2], tids[-1]))
    for (a, b) in ranges:
        if min_tid is not None and (a is None or a <= min_tid):
            a = p64(u64(min_tid) + 1)
        chk(('iterator', a and u64(a), b and u64(b)), real_iter(st, a, b), q.iterator(a, b))
    if kind == 'file' and min_tid is None and undolog:
        for (a, b) in ((0, -20), (0, -1), (1, -2), (0, 3), (2, 5)) if full else ((0, -20),):
            chk(('undoLog', a, b), real_undolog(st, a, b), q.undoLog(a, b))
    if kind == 'file' and min_tid is None and iternext and full:
        chk(('record_iternext',), real_iternext(st), _iternext_model(q))
    if counter is not None:
        counter('battery_queries', n)
    return n, diffs


def _iternext_model(q):
    out = []
    for o in q.s.oids():
        a = q.load(o)
        if a[0] == 'ok':
            out.append((o,) + a)
        else:
            out.append(('POSKeyError-in-iternext',))
            break
    return out
