"""DB-level graph history builder (Connection API): create/link/unlink/modify/cycles/garbage/undo.

Deterministic for (seed, FakeClock); used by C07/C08/C15 to produce histories with
undo records pointing across pack times, un-created objects, cycles and garbage."""
import transaction

from ZODB.POSException import ConflictError, POSKeyError, UndoError

from zv.objs import Cell


def reachable_nodes(c):
    seen = {}
    todo = [c.root()]
    out = []
    while todo:
        o = todo.pop()
        if o._p_oid in seen:
            continue
        seen[o._p_oid] = o
        try:
            vals = list(o.values() if o is c.root() else o.refs.values())
        except POSKeyError:
            continue            # dangling reference left by undo of a creation
        out.append(o)
        todo.extend(vals)
    return out


OPS = ['new', 'new', 'new', 'mod', 'mod', 'unlink', 'link', 'undo', 'undo', 'undo', 'cycle', 'garbage']
# with writes to objects that are unreachable (never linked, or unlinked earlier) and stay so: the live connection
# still holds them, so an unreachable oid gets records on both sides of a pack time
OPS_G = OPS + ['garbage', 'unlink', 'modgarbage', 'modgarbage', 'modgarbage']


def build(db, rnd, nops, ops=OPS, can_undo=True, trace=None):
    """run nops random graph operations, one transaction each; returns the trace"""
    tm = transaction.TransactionManager()
    c = db.open(tm)
    trace = [] if trace is None else trace
    k = [0]
    known = []

    def fresh():
        k[0] += 1
        n = Cell('n%d' % k[0])
        known.append(n)
        return n

    def attach(parent, name, child):
        if parent is c.root():
            parent[name] = child
        else:
            parent.refs[name] = child
            parent._p_changed = True
    for i in range(nops):
        tm.begin()
        nodes = reachable_nodes(c)
        op = rnd.choice(ops)
        inner = [n for n in nodes if n is not c.root()]
        if op == 'new':
            n = fresh()
            attach(rnd.choice(nodes), 'k%d' % k[0], n)
            if rnd.random() < 0.4:
                n.refs['child'] = fresh()
        elif op == 'mod':
            if not inner:
                tm.abort()
                continue
            n = rnd.choice(inner)
            n.payload = (n.payload or '') + '+'
        elif op == 'unlink':
            cand = [n for n in nodes if (n.refs if n is not c.root() else len(n))]
            if not cand:
                tm.abort()
                continue
            n = rnd.choice(cand)
            if n is c.root():
                del n[rnd.choice(sorted(n.keys()))]
            else:
                del n.refs[rnd.choice(sorted(n.refs))]
                n._p_changed = True
        elif op == 'link':
            if not inner:
                tm.abort()
                continue
            k[0] += 1
            attach(rnd.choice(nodes), 'l%d' % k[0], rnd.choice(inner))
        elif op == 'cycle':
            if len(inner) < 2:
                tm.abort()
                continue
            a, b = rnd.sample(inner, 2)
            k[0] += 1
            a.refs['c%d' % k[0]] = b
            b.refs['c%d' % k[0]] = a
            a._p_changed = b._p_changed = True
        elif op == 'garbage':
            # an object (with a child) that is stored but never linked from the root
            g = fresh()
            g.refs['child'] = fresh()
            c.add(g)
        elif op == 'modgarbage':
            reach = {n._p_oid for n in nodes}
            cand = [n for n in known if n._p_oid is not None and n._p_jar is c and n._p_oid not in reach]
            if not cand:
                tm.abort()
                continue
            n = rnd.choice(cand)
            try:
                n.payload = (n.payload or '') + 'g'
                tm.get().note('%s%d' % (op, i))
                tm.commit()
                trace.append(op)
            except (POSKeyError, ConflictError):
                tm.abort()                      # the object was un-created by an undo
                trace.append('modgarbage-refused')
            continue
        elif op == 'undo':
            if not can_undo:
                tm.abort()
                continue
            info = [x for x in db.undoInfo(0, 6) if x['description'] != 'initial database creation']
            if not info:
                tm.abort()
                continue
            u = rnd.choice(info)
            db.undo(u['id'], tm.get())
            try:
                tm.get().note('undo of %s' % u['description'])
                tm.commit()
                trace.append('undo:%s' % u['description'])
            except UndoError:
                tm.abort()
                trace.append('undo-refused')
            continue
        tm.get().note('%s%d' % (op, i))
        tm.commit()
        trace.append(op)
    c.close()
    return trace
