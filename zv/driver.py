"""Storage-level history driver: applies generated operations to a real storage and to Spec.

The driver controls the 2PC phases itself (tpc_begin/store/vote/finish), which the crash and
fault engines need; every committed transaction is appended to self.spec with the records the
*model* says it must contain.
"""
import base64
import os

from ZODB.Connection import TransactionMetaData
from ZODB.POSException import ConflictError, POSKeyError, UndoError
from ZODB.utils import p64, u64, z64

from zv import objs
from zv.spec import Spec, Txn, UndoEither, UndoRefused, ext_bytes, model_undo

OIDS = [p64(i) for i in (0, 1, 2, 3, 0x10000, 0x7fffffffffffff00)]
META_LENS = (0, 1, 7, 255, 300, 65535)


class Mismatch(Exception):
    """driver-level disagreement between the real storage and the model"""

    def __init__(self, mechanism, detail):
        Exception.__init__(self, mechanism, detail)
        self.mechanism = mechanism
        self.detail = detail


class Merged:
    """model-side result of a class merge: (class, state); bytes are adopted from the storage after comparison"""

    def __init__(self, meta, state):
        self.meta = meta
        self.state = state

    def matches(self, data):
        meta, state, refs = objs.decode_record(data)
        return meta == self.meta and state == self.state

    def __eq__(self, other):
        return False


def model_resolver(oid, old, committed, new):
    """what the classes in zv.objs merge to, recomputed independently (None = cannot merge)"""
    try:
        mo, so, _ = objs.decode_record(old)
        mc, sc, _ = objs.decode_record(committed)
        mn, sn, _ = objs.decode_record(new)
    except Exception:
        return None
    if mn is objs.Counter:
        r = dict(sn)
        r['value'] = sc['value'] + sn['value'] - so['value']
        return Merged(mn, r)
    if mn is objs.USet:
        r = dict(sn)
        r['items'] = sorted(set(sc['items']) | set(sn['items']))
        return Merged(mn, r)
    if mn is objs.MaxReg:
        r = dict(sc)
        r['value'] = max(sc['value'], sn['value'])
        return Merged(mn, r)
    return None


class Driver:
    def __init__(self, storage, rnd, kind='file', spec=None, log=None, oids=None, big=False,
                 resolver=None, record_class=None):
        self.st = storage
        self.rnd = rnd
        self.kind = kind
        self.spec = spec if spec is not None else Spec()
        self.log = log                  # RecFS LOG for markers (or None)
        self.ncommit = 0
        self.specs_after = [self.spec.copy()]
        self.trace = []
        self.oids = list(oids or OIDS)
        self.big = big
        self.uid = 0
        self.resolver = resolver
        self.features = set()
        self.record_class = record_class
        self.mix_classes = False        # C06/C10: per-oid classes incl. resolvable ones
        self.undoable_from = 0          # demo storages: only transactions of the changes layer can be undone
        self.equal_p = 0.15
        self.classes = {}

    # -- helpers
    def meta(self, extreme=False):
        r = self.rnd
        self.uid += 1
        if extreme and r.random() < 0.3:
            ul, dl = r.choice(META_LENS), r.choice(META_LENS)
            user, desc = b'u' * ul, b'd' * dl
            self.features.add('meta-len-%d-%d' % (ul, dl))
        else:
            user = r.choice([b'', b'user%d' % self.uid])
            desc = r.choice([b'', b'desc %d' % self.uid])
        ext = r.choice([None, {'k': self.uid}, {'x': 'y' * r.randrange(1, 80)}])
        return TransactionMetaData(user, desc, ext)

    def mark(self, *m):
        if self.log is not None:
            self.log.mark(*m)

    def committed(self, t, tid, records, status=' '):
        self.ncommit += 1
        self.spec.txns.append(Txn(tid, status, t.user, t.description, t.extension_bytes, records))
        self.mark('finish_ret', self.ncommit)
        self.specs_after.append(self.spec.copy())

    def new_data(self, oid):
        r = self.rnd
        self.uid += 1
        size = r.choice([5, 50, 70000, 140000]) if (self.big and r.random() < 0.25) else r.randrange(1, 120)
        if size > 1000:
            self.features.add('big-record')
        if self.mix_classes:
            revs = [d for (_, d) in self.spec.revs(oid) if d is not None]
            if revs and r.random() < self.equal_p:
                self.features.add('equal-restore-of-earlier-bytes')
                return r.choice(revs)              # a later change that is "equal in effect" to an earlier state
            k = self.classes.setdefault(oid, r.choice(['cell', 'counter', 'counter', 'uset']))
            if k == 'counter':
                return objs.make_record(objs.Counter, {'value': r.randrange(1000), 'note': 'n%d' % self.uid})
            if k == 'uset':
                return objs.make_record(objs.USet, {'items': sorted(r.sample(range(20), r.randrange(4))), 'ref': objs.Ref(z64),
                                                    'note': 'n%d' % self.uid})
        live = [o for o in self.spec.oids() if self.spec.current(o)[1] is not None] or [z64]
        refs = [r.choice(live)] if r.random() < 0.6 else []
        return objs.cell_record('p%d-' % self.uid + 'x' * size, refs, cls=self.record_class)

    # -- operations (each returns a short description for the trace)
    def op_store(self, n=1, abort=None):
        """abort in (None, 'pre', 'post')"""
        t = self.meta(extreme=True)
        st = self.st
        chosen = self.rnd.sample(self.oids, min(n, len(self.oids)))
        st.tpc_begin(t)
        self.mark('begin', self.ncommit + 1)
        recs = []
        for o in chosen:
            cur = self.spec.current(o)
            data = self.new_data(o)
            st.store(o, cur[0] if cur else z64, data, '', t)
            recs.append((o, data))
        if abort == 'pre':
            st.tpc_abort(t)
            self.mark('abort_ret', self.ncommit + 1)
            return 'abort-pre(%d)' % n
        st.tpc_vote(t)
        self.mark('vote_ret', self.ncommit + 1)
        if abort == 'post':
            # somebody reads the newest committed records while the voted transaction lies behind them in the file (another
            # thread would; the API allows it from this one): whatever a reader's file buffer picked up of it must be gone
            # when the transaction is
            for o in self.spec.oids()[-3:]:
                try:
                    st.load(o)
                except Exception:
                    pass
            st.tpc_abort(t)
            self.mark('abort_ret', self.ncommit + 1)
            return 'abort-post(%d)' % n
        tid = st.tpc_finish(t)
        self.committed(t, tid, recs)
        return 'store(%d)' % n

    def op_resolved(self):
        """store onto a resolvable object with a stale serial: the class merge must be stored"""
        cands = [o for o in self.spec.oids() if self.classes.get(o) in ('counter', 'uset') and len([d for (_, d) in self.spec.revs(o) if d is not None]) >= 2
                 and self.spec.current(o)[1] is not None]
        if not cands:
            return None
        o = self.rnd.choice(cands)
        revs = self.spec.revs(o)
        old_i = self.rnd.randrange(len(revs) - 1)
        if revs[old_i][1] is None:
            return None
        self.uid += 1
        save_p = self.equal_p
        self.equal_p = 0
        new = self.new_data(o)
        self.equal_p = save_p
        exp = self.resolver(o, revs[old_i][1], revs[-1][1], new) if self.resolver else None
        t = self.meta()
        st = self.st
        st.tpc_begin(t)
        self.mark('begin', self.ncommit + 1)
        try:
            st.store(o, revs[old_i][0], new, '', t)
        except ConflictError:
            st.tpc_abort(t)
            self.mark('abort_ret', self.ncommit + 1)
            if exp is not None:
                raise Mismatch('resolved-store:refused-but-model-merges', {'oid': o})
            return 'resolve-refused'
        if exp is None:
            st.tpc_abort(t)
            raise Mismatch('resolved-store:accepted-but-model-cannot-merge', {'oid': o})
        st.tpc_vote(t)
        self.mark('vote_ret', self.ncommit + 1)
        tid = st.tpc_finish(t)
        data = st.load(o)[0]
        if not exp.matches(data):
            raise Mismatch('resolved-store:stored-state-differs-from-class-merge', {'oid': o, 'model': exp.state, 'real': objs.decode_record(data)[1]})
        self.committed(t, tid, [(o, data)])
        self.features.add('resolved-store')
        return 'resolved(%d)' % u64(o)

    def op_delete(self):
        live = [o for o in self.spec.oids() if self.spec.current(o)[1] is not None]
        if not live:
            return None
        o = self.rnd.choice(live)
        t = self.meta()
        st = self.st
        st.tpc_begin(t)
        self.mark('begin', self.ncommit + 1)
        st.deleteObject(o, self.spec.current(o)[0], t)
        st.tpc_vote(t)
        tid = st.tpc_finish(t)
        self.committed(t, tid, [(o, None)])
        self.features.add('delete')
        return 'delete(%d)' % u64(o)

    def op_restore(self):
        r = self.rnd
        last = self.spec.last_tid()
        tid = p64(u64(last) + r.choice([1, 1000, 10 ** 12]))
        nrec = r.choice([1, 1, 2])
        t = self.meta()
        status = r.choice([' ', ' ', 'p'])
        st = self.st
        st.tpc_begin(t, tid, status)
        self.mark('begin', self.ncommit + 1)
        recs = []
        for o in r.sample(self.oids + [p64(r.randrange(1, 2 ** 62))], nrec):
            data = r.choice([self.new_data(o), self.new_data(o), None])
            prev = None
            revs = self.spec.revs(o)
            if data is not None and revs and r.random() < 0.5:
                pt, pd = r.choice(revs)
                if pd is not None:
                    data, prev = pd, pt
                    self.features.add('restore-prev-hint')
            elif data is not None and r.random() < 0.2:
                prev = p64(12345)      # hint naming a txn that does not exist
            st.restore(o, tid, data, '', prev, t)
            recs.append((o, data))
        st.tpc_vote(t)
        rt = st.tpc_finish(t)
        if rt != tid:
            raise Mismatch('restore:tid-differs', {'asked': tid, 'got': rt})
        self.committed(t, tid, recs, status)
        self.features.add('restore' + ('-p' if status == 'p' else ''))
        return 'restore(%d recs,%r)' % (nrec, status)

    def op_undo(self, ntx=1, strict=True):
        cands = [x for x in self.spec.txns[self.undoable_from:] if x.status == ' ']
        if not cands:
            return None
        us = self.rnd.sample(cands[-5:], min(ntx, len(cands[-5:])))
        t = self.meta()
        st = self.st
        try:
            expect = ('ok', model_undo(self.spec, [u.tid for u in us], self.resolver))
        except UndoRefused as e:
            expect = ('refused', str(e))
        except UndoEither:
            expect = ('either', None)
        st.tpc_begin(t)
        self.mark('begin', self.ncommit + 1)
        try:
            for u in us:
                st.undo(base64.encodebytes(u.tid).rstrip(), t)
        except UndoError as e:
            st.tpc_abort(t)
            self.mark('abort_ret', self.ncommit + 1)
            if expect[0] == 'ok' and strict:
                raise Mismatch('undo:refused-but-model-accepts', {'undone': [x.tid for x in us], 'err': repr(e)[:200]})
            self.features.add('undo-refused')
            return 'undo-refused'
        if expect[0] == 'refused' and strict:
            st.tpc_abort(t)
            raise Mismatch('undo:accepted-but-model-refuses', {'undone': [x.tid for x in us], 'why': expect[1]})
        st.tpc_vote(t)
        self.mark('vote_ret', self.ncommit + 1)
        tid = st.tpc_finish(t)
        if expect[0] == 'either':
            # no verdict from the model in this corner: adopt the records the storage wrote
            it = st.iterator(tid, tid)
            recs = [(r.oid, r.data) for tx in it for r in tx]
            if hasattr(it, 'close'):
                it.close()
            self.features.add('undo-either-adopted')
        else:
            recs = list(expect[1])
            if any(isinstance(d, Merged) for (_, d) in recs):
                # merged states: the model predicts the state, the storage chose the pickle bytes
                it = st.iterator(tid, tid)
                real = [(r.oid, r.data) for tx in it for r in tx]
                if hasattr(it, 'close'):
                    it.close()
                if [o for o, _ in real] != [o for o, _ in recs]:
                    raise Mismatch('undo:records-differ-from-model', {'real': [o for o, _ in real], 'model': [o for o, _ in recs]})
                for i, ((o, d), (_, rd)) in enumerate(zip(recs, real)):
                    if isinstance(d, Merged):
                        if rd is None or not d.matches(rd):
                            raise Mismatch('undo:merged-state-differs-from-class-resolver',
                                           {'oid': o, 'model': d.state, 'real': None if rd is None else objs.decode_record(rd)[1]})
                        recs[i] = (o, rd)
                        self.features.add('undo-merged')
        self.committed(t, tid, recs)
        self.features.add('undo%s' % ('-multi' if len(us) > 1 else ''))
        if any(d is None for (o, d) in self.spec.txns[-1].records):
            self.features.add('undo-uncreates')
        return 'undo(%s)' % ','.join(str(self.spec.txns.index(u)) for u in us)

    def op_reopen(self, factory, drop_index=False):
        self.st.close()
        if drop_index:
            p = getattr(self.st, '_file_name', None)
            if p and os.path.exists(p + '.index'):
                os.remove(p + '.index')
        self.st = factory()
        self.features.add('reopen' + ('-noindex' if drop_index else ''))
        return 'reopen%s' % ('(no index)' if drop_index else '')

    def step(self, ops, factory=None):
        """run one randomly chosen op from the weighted list `ops`"""
        r = self.rnd
        k = r.choice(ops)
        if k == 'store':
            d = self.op_store(1)
        elif k == 'multi':
            d = self.op_store(r.choice([2, 3, 4]))
        elif k == 'empty':
            d = self.op_store(0)
            self.features.add('empty-txn')
        elif k == 'abort':
            d = self.op_store(r.choice([1, 2]), abort=r.choice(['pre', 'post']))
            self.features.add(d.split('(')[0])
        elif k == 'delete':
            d = self.op_delete()
        elif k == 'resolved':
            d = self.op_resolved()
        elif k == 'restore':
            d = self.op_restore()
        elif k == 'undo':
            d = self.op_undo(1)
        elif k == 'undo2':
            d = self.op_undo(2)
        elif k == 'undo3':
            d = self.op_undo(3)
        elif k == 'reopen':
            d = self.op_reopen(factory, drop_index=r.random() < 0.4)
        else:
            raise ValueError(k)
        if d:
            self.trace.append(d)
        return d
