"""C18  repozo recover reproduces the backed-up data file byte for byte."""
import contextlib
import gzip
import hashlib
import io
import logging
import os
import random
import shutil

from zv.harness import Shard, split, case_indices, case_seed, digest, guarded

ID = 'C18'
LEVEL = 'exploration'
ENGINE = 'Parser'
TECHNIQUE = ('runtime monitoring of real repozo runs against a live FileStorage: snapshot of the committed prefix (independent parser) '
             'taken at every backup, recover output compared byte for byte for many dates; verify verdicts compared with an '
             'independent recomputation on intact and singly damaged repositories')
RULE = ('scenarios interleaving commits (stores, undo, delete), packs, transactions left voted-but-unfinished during a backup, and '
        'backups with random option sets from {-F,-Q,-z,-k} under a test clock; after every backup S_i = source bytes up to the end '
        'of the last complete transaction (zv/fsparse) is remembered. Recover (with and without -w) at dates exactly at, between, '
        'before all backups and at "now": output must equal S_j of the last backup <= date that the repository still holds '
        '(NoFiles if none), the restored index must open to the same observation as a full scan. Verify (-V, -VQ) on the intact '
        'repository must pass; for every file of the current chain and each damage in {missing, truncated, one byte altered} the '
        'verdict must match our own recomputation (size and md5 of uncompressed content vs the .dat line). Non-trivial = distinct '
        'scenarios with >= 1 incremental backup and >= 2 recover dates answered from different backups.')
LEVEL_TEXT = ('Held on generated backup scenarios: recovered bytes and verify verdicts are compared with independently remembered '
              'snapshots / recomputed checksums for every backup date and every single-file damage. Not a proof.')
LEVEL_NOTE = ('Quick (-Q) backup mode is probabilistic by design; scenarios do not craft same-size prefix changes against it. '
              'A quick verify on a same-size altered byte legitimately passes. Trusts zv/fsparse, hashlib, gzip.')
ASSUMPTIONS = ['backups are at least one second apart (file names are second-granular)']
REQUIRED_COUNTERS = ('backups', 'incremental_backups', 'recoveries_compared', 'verify_intact', 'verify_damaged', 'backups_with_unfinished_txn')


def shards(tier, seed):
    return split(tier, seed, 6000, 200000, 45, 900)


def quiet(f, *a):
    buf = io.StringIO()
    with contextlib.redirect_stdout(buf), contextlib.redirect_stderr(buf):
        return f(*a)


def datestr(t):
    return '%04d-%02d-%02d-%02d-%02d-%02d' % t


def tick(t, secs):
    import calendar
    import time
    return time.gmtime(calendar.timegm(t + (0, 0, 0)) + secs)[:6]


class QuickAfterPack(Exception):
    pass


def own_verdict(repo, chain, quick):
    """True = verification must fail; recomputed independently from the .dat file of the chain's full backup"""
    dat = os.path.join(repo, os.path.splitext(chain[0]['file'])[0] + '.dat')
    try:
        lines = open(dat).read().splitlines()
    except OSError:
        return True
    for line in lines:
        fn, start, end, md = line.split()
        p = os.path.join(repo, os.path.basename(fn))
        if not os.path.exists(p):
            return True
        try:
            raw = open(p, 'rb').read()
            content = gzip.decompress(raw) if p.endswith('z') else raw
        except Exception:
            return True
        if len(content) != int(end) - int(start):
            return True
        if not quick and hashlib.md5(content).hexdigest() != md:
            return True
    return False


def run_case(sh, s, d, case, script=None):
    from ZODB.scripts import repozo as R
    from zv import recfs, clock, objs
    from zv.driver import Driver
    from zv.fsparse import parse
    from zv.observe import observe, first_diff
    from ZODB.Connection import TransactionMetaData
    from ZODB.serialize import referencesf
    from ZODB.utils import z64
    from persistent.TimeStamp import TimeStamp
    rnd = random.Random(s)
    FSM = recfs.install()
    recfs.LOG.enabled = False
    clock.install(clock.FakeClock())
    src = os.path.join(d, 'Data.fs')
    repo = os.path.join(d, 'repo')
    os.makedirs(repo)
    fs = FSM.FileStorage(src)
    dr = Driver(fs, rnd, kind='file')
    now = (2020, 1, 1, 0, 0, 10)
    backups = []        # dicts: date, S (bytes), held (bool), kind
    packs_since_full = [0]
    trace = []

    def committed_prefix():
        dr.st._file.flush()
        with open(src, 'rb') as f:
            b = f.read()
        return b[:parse(b)[1]]

    def backup(flags, unfinished=False):
        nonlocal now
        ticking = script is None and rnd.random() < 0.4
        prev_now = now
        now = tick(now, rnd.choice([1, 2, 60, 3600, 86400]) if not ticking else rnd.choice([10, 60, 3600, 86400]))
        same_second = script is None and not ticking and bool(backups) and random.Random(s * 41 + len(trace)).random() < 0.1
        if same_second:
            now = prev_now            # within the very second of the previous backup: made properly or refused, nothing in between
        argv = ['-B', '-r', repo, '-f', src] + flags
        opt = R.parseargs(argv)
        if not ticking:
            opt.test_now = now
        if ticking:
            # no fixed test time: repozo reads a clock that is one second later at every look (a backup of a big file takes
            # longer than a second) - all files of one backup must still carry one name
            import time as _rt
            import calendar

            class _Tick:
                def __init__(self, t0):
                    self.t = t0 - 1

                def gmtime(self, *a):
                    if a:
                        return _rt.gmtime(*a)
                    self.t += 1
                    return _rt.gmtime(self.t)

                def __getattr__(self, n):
                    return getattr(_rt, n)
            R.time = _Tick(calendar.timegm(now + (0, 0, 0)))
            sh.count('backups_under_a_ticking_clock')
        before = set(os.listdir(repo))
        S = committed_prefix()
        if same_second:
            sh.count('backups_in_the_second_of_the_previous_backup')
            listing = {f: os.path.getsize(os.path.join(repo, f)) for f in os.listdir(repo)}
        try:
            try:
                try:
                    quiet(R.do_backup, opt)
                except R.WouldOverwriteFiles:
                    if not same_second:
                        raise
                    sh.count('same_second_backups_refused')
                    if {f: os.path.getsize(os.path.join(repo, f)) for f in os.listdir(repo)} != listing:
                        sh.violation('c18:refused-backup-changed-the-repository', {'flags': flags}, case)
                    trace.append('backup%s:refused-same-second' % ''.join(flags))
                    return
            finally:
                if ticking:
                    import time as _rt2
                    R.time = _rt2
        except AssertionError:
            if '-Q' in flags and packs_since_full[0]:
                # same family as the known quick-after-pack finding: the vacuous range check lets an incremental
                # start beyond the committed end of the packed file (negative length) -> the backup aborts
                raise QuickAfterPack()
            raise
        new = set(os.listdir(repo)) - before
        sh.count('backups')
        if unfinished:
            sh.count('backups_with_unfinished_txn')
        made = [f for f in new if f.endswith(('.fs', '.fsz', '.deltafs', '.deltafsz'))]
        if not made:
            trace.append('backup%s:nothing-to-do' % ''.join(flags))
            # "nothing to do" is only right when the committed part of the data file is what the newest backup holds
            if backups and backups[-1]['S'] != S:
                sh.violation('c18:backup-wrote-nothing-although-the-data-file-differs-from-the-newest-backup',
                             {'flags': flags, 'sizes': (len(backups[-1]['S']), len(S)), 'trace': trace[-8:]}, case)
            return
        kindb = 'full' if made[0].endswith(('.fs', '.fsz')) else 'incr'
        if kindb == 'incr':
            sh.count('incremental_backups')
        if kindb == 'full' and '-k' in flags:
            for b in backups:
                b['held'] = False
        if kindb == 'full':
            packs_since_full[0] = 0
        if ticking:
            # the time this backup carries is the one repozo read for its file name; the harness clock moves on behind it
            now = tuple(int(x) for x in made[0].split('.')[0].split('-'))
            stamps = {f.split('.')[0] for f in new}
            if len(stamps) != 1:
                sh.violation('c18:files-of-one-backup-carry-different-timestamps', {'files': sorted(new), 'flags': flags}, case)
            now = tick(now, 5)
            backups.append({'date': tick(now, -5), 'S': S, 'held': True, 'kind': kindb, 'file': made[0], 'quick': '-Q' in flags,
                            'packs_since_full': packs_since_full[0]})
            trace.append('backup%s:%s%s:ticking-clock' % (''.join(flags), kindb, ':unfinished-txn' if unfinished else ''))
            return
        backups.append({'date': now, 'S': S, 'held': True, 'kind': kindb, 'file': made[0], 'quick': '-Q' in flags,
                        'packs_since_full': packs_since_full[0]})
        trace.append('backup%s:%s%s' % (''.join(flags), kindb, ':unfinished-txn' if unfinished else ''))
    nsteps = rnd.choice([4, 7, 10]) if script is None else len(script)
    for i in range(nsteps):
        k = rnd.choice(['commit', 'commit', 'backup', 'backup', 'backup', 'pack', 'backup-unfinished'])
        forced_flags = None
        if script is not None:
            k, forced_flags = script[i]
        if script is None and dr.spec.txns and random.Random(s * 31 + i).random() < 0.12:
            k = 'same-size'
        if k == 'same-size':
            # a pack that leaves the data file exactly as long as it was at the previous backup, with other content: pack away
            # all garbage, commit X, back up, overwrite X by a state of the same length (same metadata), pack, back up again
            from zv.props.c06 import adopt_spec

            def raw_commit(oid, payload):
                t = TransactionMetaData(b'', b'same size')
                dr.st.tpc_begin(t)
                try:
                    serial = dr.st.getTid(oid)
                except KeyError:
                    serial = z64
                dr.st.store(oid, serial, objs.cell_record(payload), '', t)
                dr.st.tpc_vote(t)
                dr.st.tpc_finish(t)
            try:
                dr.st.pack(TimeStamp(dr.st.lastTransaction()).timeTime() + 0.001, referencesf, gc=False)
                packs_since_full[0] += 1
            except Exception:
                pass
            xoid = dr.st.new_oid()
            raw_commit(xoid, 'a' * 40)
            backup([f for f in ('-F', '-Q', '-z') if rnd.random() < 0.3])
            size1 = len(committed_prefix())
            raw_commit(xoid, 'b' * 40)
            dr.st.pack(TimeStamp(dr.st.lastTransaction()).timeTime() + 0.001, referencesf, gc=False)
            packs_since_full[0] += 1
            dr.spec = adopt_spec(dr.st)
            if len(committed_prefix()) == size1:
                sh.count('packs_leaving_the_file_as_long_as_at_the_previous_backup')
            trace.append('same-size-rewrite-and-pack')
            backup(['-Q'] + [f for f in ('-z', '-k') if rnd.random() < 0.3])
        elif k == 'commit' or not dr.spec.txns:
            for _ in range(rnd.randrange(1, 4)):
                dr.step(['store', 'store', 'multi', 'undo', 'delete'])
            trace.append('commits')
        elif k == 'pack':
            T = rnd.choice([t.tid for t in dr.spec.txns]) if script is None else dr.spec.txns[-1].tid
            try:
                dr.st.pack(TimeStamp(T).timeTime() + 0.001, referencesf, gc=False)
                trace.append('pack')
                packs_since_full[0] += 1
                from zv.props.c06 import adopt_spec
                dr.spec = adopt_spec(dr.st)
            except Exception as e:
                trace.append('pack-raised')
        elif k == 'backup':
            flags = [f for f in ('-F', '-Q', '-z', '-k') if rnd.random() < 0.3]
            backup(flags if forced_flags is None else forced_flags)
        elif k == 'backup-unfinished':
            t = TransactionMetaData(b'', b'in flight')
            oid = dr.st.new_oid()
            dr.st.tpc_begin(t)
            dr.st.store(oid, z64, objs.cell_record('in flight ' * rnd.randrange(1, 30)), '', t)
            dr.st.tpc_vote(t)
            fl = [f for f in ('-Q', '-z') if rnd.random() < 0.3]
            backup(fl if forced_flags is None else forced_flags, unfinished=True)
            if rnd.random() < 0.5:
                dr.st.tpc_abort(t)
            else:
                tid = dr.st.tpc_finish(t)
                from zv.spec import Txn
                dr.spec.txns.append(Txn(tid, ' ', t.user, t.description, t.extension_bytes, [(oid, dr.st.load(oid)[0])]))
    dr.st.close()
    wit = {'trace': trace}
    # every backup taken must contain complete transactions only (by construction S is the committed prefix)
    # --- recover at many dates
    dates = []
    for i, b in enumerate(backups):
        dates.append(datestr(b['date']))
        dates.append(datestr(tick(b['date'], 1)))
        dates.append(datestr(tick(b['date'], -1)))
    dates.append(None)
    answered = set()
    for D in dates:
        held = [b for b in backups if b['held'] and (D is None or datestr(b['date']) <= D)]
        exp = held[-1]['S'] if held else None
        for withverify in (False, True):
            out = os.path.join(d, 'Recovered.fs')
            for x in os.listdir(d):
                if x.startswith('Recovered.fs'):
                    os.remove(os.path.join(d, x))
            argv = ['-R', '-r', repo, '-o', out] + (['-D', D] if D else []) + (['-w'] if withverify else [])
            opt = R.parseargs(argv)
            opt.test_now = tick(now, 5)
            sh.count('recoveries_compared')
            try:
                quiet(R.do_recover, opt)
                got = open(out, 'rb').read()
            except R.NoFiles:
                got = None
            except Exception as e:
                sh.violation('c18:recover-raises-%s' % type(e).__name__, dict(wit, date=D, withverify=withverify, exc=repr(e)[:200]), case)
                return None
            if got != exp:
                what = ('recover-found-nothing-but-a-backup-exists' if got is None else
                        'recover-produced-a-file-but-no-backup-held-for-that-date' if exp is None else
                        'recovered-bytes-differ-from-backed-up-prefix')
                j = backups.index(held[-1]) if held else None
                if j is not None and what.startswith('recovered-bytes'):
                    # deciding feature: the chain used contains a -Q incremental taken after a pack that
                    # followed the chain's full backup (quick mode only re-checks the last increment's range)
                    fulls = [i for i, b in enumerate(backups[:j + 1]) if b['kind'] == 'full']
                    ch = backups[fulls[-1]:j + 1] if fulls else []
                    if any(b['kind'] == 'incr' and b.get('quick') and b.get('packs_since_full') for b in ch):
                        what = 'quick-incremental-after-pack:' + what
                sh.violation('c18:' + what, dict(wit, date=D, withverify=withverify, expected_backup=j,
                                                 sizes=(None if got is None else len(got), None if exp is None else len(exp)),
                                                 matches_other_backup=[i for i, b in enumerate(backups) if b['S'] == got]), case)
                return None
            if exp is not None:
                answered.add(backups.index(held[-1]))
                if not os.path.exists(out + '.index'):
                    # "together with a usable index": every backup saves the index of its state, recovery restores it
                    sh.violation('c18:recover-restored-no-index-file', dict(wit, date=D, withverify=withverify,
                                                                            expected_backup=backups.index(held[-1])), case)
                    return None
                if not withverify and os.path.exists(out + '.index') and len(exp) > 4:
                    a = FSM.FileStorage(out)
                    used = getattr(a, '_used_index', 0)
                    oa = observe(a, full=False)
                    a.close()
                    os.remove(out + '.index')
                    b_ = FSM.FileStorage(out)
                    ob = observe(b_, full=False)
                    b_.close()
                    sh.count('restored_index_opens')
                    if first_diff(oa, ob):
                        sh.violation('c18:restored-index-gives-different-state', dict(wit, date=D, used=used), case)
                        return None
    # --- verify
    if backups:
        for quick in (False, True):
            opt = R.parseargs(['-V', '-r', repo] + (['-Q'] if quick else []))
            opt.test_now = tick(now, 5)
            sh.count('verify_intact')
            try:
                quiet(R.do_verify, opt)
            except Exception as e:
                sh.violation('c18:verify-fails-on-intact-repository', dict(wit, quick=quick, exc=repr(e)[:200]), case)
                return None
        # chain of the newest full
        chain = []
        for b in backups:
            if b['kind'] == 'full':
                chain = [b]
            else:
                chain.append(b)
        for b in chain:
            fpath = os.path.join(repo, b['file'])
            orig = open(fpath, 'rb').read()
            for dmg in ('missing', 'truncated', 'altered'):
                if dmg == 'missing':
                    os.remove(fpath)
                elif dmg == 'truncated':
                    if len(orig) < 2:
                        continue
                    open(fpath, 'wb').write(orig[:rnd.randrange(0, len(orig))])
                else:
                    if not orig:
                        continue
                    p = rnd.randrange(len(orig))
                    open(fpath, 'wb').write(orig[:p] + bytes([orig[p] ^ 0x55]) + orig[p + 1:])
                # our own verdict, recomputed from the .dat lines of the chain that is still selectable
                gz = fpath.endswith('z')
                older_full = any(x['kind'] == 'full' and x['held'] and x is not chain[0] for x in backups)
                if dmg == 'missing' and b is not chain[0] and b is not chain[-1]:
                    # an incremental in the middle of the chain is gone: recovery of the latest state must not skip it silently
                    out2 = os.path.join(d, 'Recovered-damaged.fs')
                    opt = R.parseargs(['-R', '-r', repo, '-o', out2] + (['-w'] if rnd.random() < 0.5 else []))
                    opt.test_now = tick(now, 5)
                    sh.count('recoveries_with_a_middle_incremental_missing')
                    try:
                        quiet(R.do_recover, opt)
                        got2 = open(out2, 'rb').read()
                    except (R.RepozoError, OSError, KeyError):
                        got2 = None
                    for x in os.listdir(d):
                        if x.startswith('Recovered-damaged.fs'):
                            os.remove(os.path.join(d, x))
                    if got2 is not None and not any(got2 == x['S'] for x in backups):
                        sh.violation('c18:recover-yields-bytes-of-no-backup:incremental-file-missing', dict(wit, file=b['file'], size=len(got2)), case)
                        open(fpath, 'wb').write(orig)
                        return None
                if dmg == 'missing' and b is chain[0] and older_full and len(chain) > 1:
                    # the newest full backup is gone, its incrementals and an older chain are still there: recovery must not
                    # glue the orphaned incrementals onto the older full backup (a file that never existed); refusing is fine
                    out2 = os.path.join(d, 'Recovered-damaged.fs')
                    opt = R.parseargs(['-R', '-r', repo, '-o', out2])
                    opt.test_now = tick(now, 5)
                    sh.count('recoveries_with_the_newest_full_missing')
                    try:
                        quiet(R.do_recover, opt)
                        got2 = open(out2, 'rb').read()
                    except (R.RepozoError, OSError, KeyError):
                        got2 = None
                    for x in os.listdir(d):
                        if x.startswith('Recovered-damaged.fs'):
                            os.remove(os.path.join(d, x))
                    if got2 is not None and not any(got2 == x['S'] for x in backups):
                        sh.violation('c18:recover-yields-bytes-of-no-backup:newest-full-backup-file-missing', dict(wit, file=b['file'], size=len(got2)), case)
                        open(fpath, 'wb').write(orig)
                        return None
                for quick in (False, True):
                    if dmg == 'missing' and b is chain[0] and older_full:
                        # a backup file is missing: verification has to fail (it used to look at the older chain only) - unless
                        # nothing else of the newest chain is left, then the repository simply is the older chain
                        expect_fail = True if len(chain) > 1 else None
                    else:
                        expect_fail = own_verdict(repo, chain, quick)
                    opt = R.parseargs(['-V', '-r', repo] + (['-Q'] if quick else []))
                    opt.test_now = tick(now, 5)
                    sh.count('verify_damaged')
                    try:
                        quiet(R.do_verify, opt)
                        failed = False
                    except Exception:
                        failed = True
                    if expect_fail is not None and failed != expect_fail:
                        sh.violation('c18:verify%s-%s-on-%s-%s-file' % ('-quick' if quick else '', 'passes' if not failed else 'fails',
                                                                        dmg, 'gzip' if gz else 'plain'),
                                     dict(wit, file=b['file'], kind=b['kind']), case)
                        open(fpath, 'wb').write(orig)
                        return None
                open(fpath, 'wb').write(orig)
        # a file of an *older* chain that the repository still holds
        older = [b for b in backups if b['held'] and b not in chain and os.path.exists(os.path.join(repo, b['file']))]
        if older:
            b = older[0]
            fpath = os.path.join(repo, b['file'])
            orig = open(fpath, 'rb').read()
            if orig:
                pbyte = rnd.randrange(len(orig))
                open(fpath, 'wb').write(orig[:pbyte] + bytes([orig[pbyte] ^ 0x55]) + orig[pbyte + 1:])
                opt = R.parseargs(['-V', '-r', repo])
                opt.test_now = tick(now, 5)
                sh.count('verify_with_damage_in_an_older_chain')
                try:
                    quiet(R.do_verify, opt)
                    failed = False
                except Exception:
                    failed = True
                open(fpath, 'wb').write(orig)
                if not failed:
                    sh.violation('c18:verify-passes-on-altered-file-of-an-older-backup-chain', dict(wit, file=b['file'], kind=b['kind']), case)
                    return None
    nincr = sum(1 for b in backups if b['kind'] == 'incr')
    return (digest(trace, s) if nincr and len(answered) >= 2 else None, {'seed': s, 'trace': trace})


def run_case_classified(sh, s, d, case, **kw):
    try:
        return run_case(sh, s, d, case, **kw)
    except QuickAfterPack:
        sh.violation('c18:quick-incremental-after-pack:backup-aborts-with-AssertionError', {}, case)
        return None


REGRESSION_SCRIPTS = [
    {'seed': 7, 'script': [['commit', None], ['commit', None], ['backup', []], ['backup-unfinished', ['-Q']], ['commit', None], ['commit', None],
                           ['commit', None], ['pack', None], ['backup', ['-Q']]]},
    {'seed': 3, 'script': [['commit', None], ['commit', None], ['backup', []], ['backup-unfinished', ['-Q']], ['pack', None],
                           ['backup-unfinished', ['-Q']]]},
]


def run_shard(params):
    logging.disable(logging.CRITICAL)
    sh = Shard(params)
    if params.get('shard', 0) < len(REGRESSION_SCRIPTS):
        # fixed regression scenarios (known findings until fix 0587220): empty incremental, pack, quick backup
        ccase = dict(REGRESSION_SCRIPTS[params.get('shard', 0)])
        guarded(sh, 'c18', ccase, lambda: run_case_classified(sh, ccase['seed'], sh.fresh_dir('c18'), ccase, script=[tuple(x) for x in ccase['script']]))
        sh.count('scripted_regression_scenarios')
    for i in case_indices(params):
        if not sh.time_left():
            break
        s = case_seed(params, i)
        case = {'seed': s}
        d = sh.fresh_dir('c18')
        r = guarded(sh, 'c18', case, lambda: run_case_classified(sh, s, d, case))
        if r:
            sh.case(r[0], r[1])
        else:
            sh.case(None)
    return sh.result()


def replay(case, scratch):
    logging.disable(logging.CRITICAL)
    sh = Shard({'scratch': scratch})
    if case.get('script'):
        guarded(sh, 'c18', case, lambda: run_case_classified(sh, case['seed'], sh.fresh_dir('c18'), case, script=[tuple(x) for x in case['script']]))
        return sh.violations
    guarded(sh, 'c18', case, lambda: run_case_classified(sh, case['seed'], sh.fresh_dir('c18'), case))
    return sh.violations
