"""C03  No lost updates: writers of the same object cannot both commit blindly (scheduler-driven histories + chain oracle)."""
from zv.props import c02 as _c

ID = 'C03'
WHICH = 'c03'
LEVEL = 'exploration'
ENGINE = 'Sched'
TECHNIQUE = ('runtime monitoring of concurrent committers under the deterministic baton scheduler: every stored revision carries (token, '
             'token it was derived from); after each schedule the per-object revision chain, the outcome of every transaction, '
             'readCurrent dependencies and the total of a mergeable counter are checked against the storage history')
RULE = ('same worlds and schedule strategies as C02 (2 committers doing read-modify-write on 1-3 of 4 unresolvable cells, readCurrent on a '
        'cell they only read, increments of a mergeable counter; readers; optional packer; FileStorage, MappingStorage, DemoStorage, '
        'DemoStorage over FileStorage). Oracle: for consecutive revisions of a cell base(v[i+1]) == token(v[i]); every token stored '
        'belongs to a transaction whose commit returned ok, exactly once and under one tid; tokens of ConflictError outcomes appear '
        'nowhere; for readCurrent (X, s) of an ok transaction with tid t the latest revision of X below t is s; counter total == sum '
        'of the deltas of ok transactions; no deadlock. evaluations = schedules; distinct_nontrivial = distinct decision traces with '
        '>= 2 successful commits and at least one conflict or overlapped transaction.')
LEVEL_TEXT = _c.LEVEL_TEXT
LEVEL_NOTE = _c.LEVEL_NOTE + ' Exhaustive single-threaded step orders of 2-3 connections are run in addition (step_orders counter).'
ASSUMPTIONS = _c.ASSUMPTIONS
REQUIRED_COUNTERS = ('schedules', 'context_switches', 'ok_commits', 'conflicts_raised', 'locations_parked', 'step_orders')
shards = _c.shards


def step_orders(sh, params):
    """exhaustive orders of begin/write/commit steps of 2-3 single-threaded connections (no scheduler)"""
    import itertools
    import os
    import random
    import transaction
    import ZODB
    import ZODB.MappingStorage
    import ZODB.DemoStorage
    from zv import recfs, objs
    from ZODB.POSException import ConflictError
    FSM = recfs.install()
    recfs.LOG.enabled = False
    rnd = random.Random(params['seed'] * 31 + params['shard'])
    kinds = ['file', 'mapping', 'demo']
    n = 0
    for nconn in (2, 3):
        steps = [(c, s) for c in range(nconn) for s in ('begin', 'write', 'commit')]
        # all interleavings respecting per-connection order
        def orders(prefix, rest):
            if not any(rest):
                yield prefix
                return
            for c in range(nconn):
                if rest[c]:
                    r2 = list(rest)
                    r2[c] = rest[c][1:]
                    yield from orders(prefix + [(c, rest[c][0])], r2)
        allo = list(orders([], [['begin', 'write', 'commit'] for _ in range(nconn)]))
        mine = allo[params['shard']::params['nshards']]
        if nconn == 3:
            mine = mine[:40] if params['tier'] == 'quick' else mine
        for order in mine:
            kind = kinds[n % 3]
            n += 1
            d = sh.fresh_dir('so')
            st = FSM.FileStorage(os.path.join(d, 'D.fs')) if kind == 'file' else (ZODB.MappingStorage.MappingStorage() if kind == 'mapping' else ZODB.DemoStorage.DemoStorage())
            db = ZODB.DB(st)
            with db.transaction() as c:
                c.root()['x'] = objs.Plain()
            if kind == 'file' and n % 2 == 0:
                # a restarted storage: closed cleanly and opened again from its saved index (half of the file cases)
                db.close()
                st = FSM.FileStorage(os.path.join(d, 'D.fs'))
                db = ZODB.DB(st)
                kind = 'file-restarted'
                sh.count('step_orders_on_a_restarted_storage')
            tms = [transaction.TransactionManager() for _ in range(nconn)]
            conns = [db.open(tm) for tm in tms]
            started = {}
            outcome = {}
            committed_tok = 'init'
            for (ci, stp) in order:
                if stp == 'begin':
                    tms[ci].begin()
                    started[ci] = conns[ci].root()['x'].tok        # state this writer starts from
                elif stp == 'write':
                    x = conns[ci].root()['x']
                    x.base = x.tok
                    x.tok = 'w%d' % ci
                else:
                    try:
                        tms[ci].commit()
                        outcome[ci] = 'ok'
                        if started[ci] != committed_tok:
                            sh.violation('c03:%s:step-order:commit-from-a-stale-state-accepted' % kind,
                                         {'order': order, 'writer': ci, 'started_from': started[ci], 'current': committed_tok},
                                         {'step_order': [list(x) for x in order], 'kind': kind})
                        committed_tok = 'w%d' % ci
                    except ConflictError:
                        outcome[ci] = 'conflict'
                        tms[ci].abort()
                        if started[ci] == committed_tok:
                            sh.violation('c03:%s:step-order:commit-from-the-current-state-refused' % kind,
                                         {'order': order, 'writer': ci}, {'step_order': [list(x) for x in order], 'kind': kind})
            c = db.open(transaction.TransactionManager())
            if c.root()['x'].tok != committed_tok:
                sh.violation('c03:%s:step-order:final-state-differs' % kind, {'order': order}, {'step_order': [list(x) for x in order], 'kind': kind})
            c.close()
            for c in conns:
                c.close()
            db.close()
            sh.count('step_orders')


def dependency_orders(sh, params, only=None):
    """exhaustive interleavings of a writer that declares a dependency (readCurrent) with a writer of the object it depends on:
    A = begin, declare(dep), write(x), commit;  B = begin, write(dep), commit.  A's commit must fail exactly when B's commit fell
    between A's begin and A's commit.  The dependency is declared on a loaded object or on a ghost that was never loaded."""
    import os
    import transaction
    import ZODB
    import ZODB.MappingStorage
    import ZODB.DemoStorage
    from zv import recfs, objs
    from ZODB.POSException import ConflictError
    FSM = recfs.install()
    recfs.LOG.enabled = False
    progs = [['begin', 'declare', 'write', 'commit'], ['begin', 'write', 'commit']]

    def orders(prefix, rest):
        if not any(rest):
            yield prefix
            return
        for c in range(2):
            if rest[c]:
                r2 = list(rest)
                r2[c] = rest[c][1:]
                yield from orders(prefix + [(c, rest[c][0])], r2)
    allo = list(orders([], progs))
    n = 0
    todo = [(o, v) for o in allo[params['shard'] % 4::4] for v in ('loaded', 'ghost-never-loaded', 'ghost-after-minimize')]
    if only is not None:
        todo = [([tuple(x) for x in only['dependency_order']], only['variant'])]
    for order, variant in todo:
        if True:
            kind = ['file', 'mapping', 'demo'][n % 3] if only is None else only['kind']
            n += 1
            d = sh.fresh_dir('dep')
            st = (FSM.FileStorage(os.path.join(d, 'D.fs')) if kind == 'file' else ZODB.MappingStorage.MappingStorage() if kind == 'mapping'
                  else ZODB.DemoStorage.DemoStorage())
            with ZODB.DB(st).transaction() as c:
                c.root()['x'] = objs.Plain()
                c.root()['dep'] = objs.Plain()
            db = ZODB.DB(st)              # a DB object of its own: its connections are new, no object has been loaded in them
            tms = [transaction.TransactionManager() for _ in range(2)]
            conns = [db.open(tm) for tm in tms]
            pos = {}
            case = {'dependency_order': [list(x) for x in order], 'variant': variant, 'kind': kind}
            for k, (ci, stp) in enumerate(order):
                pos[(ci, stp)] = k
                c = conns[ci]
                if stp == 'begin':
                    tms[ci].begin()
                    c.root()['x'].tok
                elif stp == 'declare':
                    dep = c.root()['dep']
                    if variant == 'loaded':
                        dep.tok
                    elif variant == 'ghost-after-minimize':
                        dep.tok
                        c.cacheMinimize()
                    c.readCurrent(dep)
                elif stp == 'write':
                    o = c.root()['x' if ci == 0 else 'dep']
                    o.base, o.tok = o.tok, 'w%d' % ci
                else:
                    try:
                        tms[ci].commit()
                        ok = True
                    except ConflictError:
                        ok = False
                        tms[ci].abort()
                    if ci == 1 and not ok:
                        sh.violation('c03:%s:dependency-order:writer-of-the-dependency-refused' % kind, {'order': order, 'variant': variant}, case)
                    if ci == 0:
                        changed = pos[(0, 'begin')] < pos.get((1, 'commit'), 99) < k
                        sh.count('dependency_orders_checked')
                        if changed:
                            sh.count('dependency_orders_with_the_dependency_changed')
                        if ok and changed:
                            sh.violation('c03:%s:dependency-order:commit-accepted-although-a-declared-dependency-changed:%s' % (kind, variant),
                                         {'order': order, 'variant': variant}, case)
                        elif not ok and not changed:
                            sh.violation('c03:%s:dependency-order:commit-refused-although-the-dependency-is-current:%s' % (kind, variant),
                                         {'order': order, 'variant': variant}, case)
            for c in conns:
                c.close()
            db.close()


def run_shard(params):
    from zv.harness import Shard
    import logging
    logging.disable(logging.CRITICAL)
    pre = Shard(dict(params, budget_s=params['budget_s']))
    step_orders(pre, params)
    dependency_orders(pre, params)
    res = _c.run_shard(dict(params, budget_s=max(5, params['budget_s'] - (__import__('time').time() - pre.t0))), which='c03')
    res['violations'] = pre.violations + res['violations']
    for k, v in pre.counters.items():
        res['counters'][k] = res['counters'].get(k, 0) + v if isinstance(v, (int, float)) else v
    return res


def replay(case, scratch):
    from zv import mvccload
    import logging
    logging.disable(logging.CRITICAL)
    if 'dependency_order' in case:
        from zv.harness import Shard
        sh = Shard({'scratch': scratch, 'budget_s': 600})
        dependency_orders(sh, {'shard': 0, 'seed': 0}, only=case)
        return sh.violations
    if 'step_order' in case:
        return [{'mechanism': 'c03:step-order:replay-not-supported-rerun-check', 'detail': case, 'case': case}]
    kw = dict(case.get('kw', {}))
    if kw.get('park'):
        kw['park'] = tuple(kw['park'])
    out = mvccload.run_schedule(case['seed'], case['kind'].split('+')[0], case['strategy'], scratch, **kw)
    vs = [{'mechanism': 'c03:%s:%s' % (case['kind'], v[0]), 'detail': {'witness': v[1:]}, 'case': case} for v in out['c03']]
    vs += [{'mechanism': 'c03:%s:%s' % (case['kind'], f[0]), 'detail': {'detail': f[1:]}, 'case': case} for f in out['sched']]
    return vs
