"""C03  No lost updates: writers of the same object cannot both commit blindly (scheduler-driven histories + chain oracle)."""
from zv.props import c02 as _c

ID = 'C03'
WHICH = 'c03'
LEVEL = 'exploration'
ENGINE = 'Sched'
TECHNIQUE = ('runtime monitoring of concurrent committers under the deterministic baton scheduler: every stored revision carries (token, '
             'token it was derived from); after each schedule the per-object revision chain, the outcome of every transaction, '
             'readCurrent dependencies and the total of a mergeable counter are checked against the storage history')
RULE = ('same worlds and schedule strategies as C02 (2 committers doing read-modify-write on 1-3 of 4 unresolvable cells, readCurrent on a '
        'cell they only read, increments of a mergeable counter; readers; optional packer; FileStorage, MappingStorage, DemoStorage, '
        'DemoStorage over FileStorage). Oracle: for consecutive revisions of a cell base(v[i+1]) == token(v[i]); every token stored '
        'belongs to a transaction whose commit returned ok, exactly once and under one tid; tokens of ConflictError outcomes appear '
        'nowhere; for readCurrent (X, s) of an ok transaction with tid t the latest revision of X below t is s; counter total == sum '
        'of the deltas of ok transactions; no deadlock. evaluations = schedules; distinct_nontrivial = distinct decision traces with '
        '>= 2 successful commits and at least one conflict or overlapped transaction.')
LEVEL_TEXT = _c.LEVEL_TEXT
LEVEL_NOTE = _c.LEVEL_NOTE + ' Exhaustive single-threaded step orders of 2-3 connections are run in addition (step_orders counter).'
ASSUMPTIONS = _c.ASSUMPTIONS
REQUIRED_COUNTERS = ('schedules', 'context_switches', 'ok_commits', 'conflicts_raised', 'locations_parked', 'step_orders')
shards = _c.shards


def step_orders(sh, params):
    """exhaustive orders of begin/write/commit steps of 2-3 single-threaded connections (no scheduler)"""
    import itertools
    import os
    import random
    import transaction
    import ZODB
    import ZODB.MappingStorage
    import ZODB.DemoStorage
    from zv import recfs, objs
    from ZODB.POSException import ConflictError
    FSM = recfs.install()
    recfs.LOG.enabled = False
    rnd = random.Random(params['seed'] * 31 + params['shard'])
    kinds = ['file', 'mapping', 'demo']
    n = 0
    for nconn in (2, 3):
        steps = [(c, s) for c in range(nconn) for s in ('begin', 'write', 'commit')]
        # all interleavings respecting per-connection order
        def orders(prefix, rest):
            if not any(rest):
                yield prefix
                return
            for c in range(nconn):
                if rest[c]:
                    r2 = list(rest)
                    r2[c] = rest[c][1:]
                    yield from orders(prefix + [(c, rest[c][0])], r2)
        allo = list(orders([], [['begin', 'write', 'commit'] for _ in range(nconn)]))
        mine = allo[params['shard']::params['nshards']]
        if nconn == 3:
            mine = mine[:40] if params['tier'] == 'quick' else mine
        for order in mine:
            kind = kinds[n % 3]
            n += 1
            d = sh.fresh_dir('so')
            st = FSM.FileStorage(os.path.join(d, 'D.fs')) if kind == 'file' else (ZODB.MappingStorage.MappingStorage() if kind == 'mapping' else ZODB.DemoStorage.DemoStorage())
            db = ZODB.DB(st)
            with db.transaction() as c:
                c.root()['x'] = objs.Plain()
            if kind == 'file' and n % 2 == 0:
                # a restarted storage: closed cleanly and opened again from its saved index (half of the file cases)
                db.close()
                st = FSM.FileStorage(os.path.join(d, 'D.fs'))
                db = ZODB.DB(st)
                kind = 'file-restarted'
                sh.count('step_orders_on_a_restarted_storage')
            tms = [transaction.TransactionManager() for _ in range(nconn)]
            conns = [db.open(tm) for tm in tms]
            started = {}
            outcome = {}
            committed_tok = 'init'
            for (ci, stp) in order:
                if stp == 'begin':
                    tms[ci].begin()
                    started[ci] = conns[ci].root()['x'].tok        # state this writer starts from
                elif stp == 'write':
                    x = conns[ci].root()['x']
                    x.base = x.tok
                    x.tok = 'w%d' % ci
                else:
                    try:
                        tms[ci].commit()
                        outcome[ci] = 'ok'
                        if started[ci] != committed_tok:
                            sh.violation('c03:%s:step-order:commit-from-a-stale-state-accepted' % kind,
                                         {'order': order, 'writer': ci, 'started_from': started[ci], 'current': committed_tok},
                                         {'step_order': [list(x) for x in order], 'kind': kind})
                        committed_tok = 'w%d' % ci
                    except ConflictError:
                        outcome[ci] = 'conflict'
                        tms[ci].abort()
                        if started[ci] == committed_tok:
                            sh.violation('c03:%s:step-order:commit-from-the-current-state-refused' % kind,
                                         {'order': order, 'writer': ci}, {'step_order': [list(x) for x in order], 'kind': kind})
            c = db.open(transaction.TransactionManager())
            if c.root()['x'].tok != committed_tok:
                sh.violation('c03:%s:step-order:final-state-differs' % kind, {'order': order}, {'step_order': [list(x) for x in order], 'kind': kind})
            c.close()
            for c in conns:
                c.close()
            db.close()
            sh.count('step_orders')


def run_shard(params):
    from zv.harness import Shard
    import logging
    logging.disable(logging.CRITICAL)
    pre = Shard(dict(params, budget_s=params['budget_s']))
    step_orders(pre, params)
    res = _c.run_shard(dict(params, budget_s=max(5, params['budget_s'] - (__import__('time').time() - pre.t0))), which='c03')
    res['violations'] = pre.violations + res['violations']
    for k, v in pre.counters.items():
        res['counters'][k] = res['counters'].get(k, 0) + v if isinstance(v, (int, float)) else v
    return res


def replay(case, scratch):
    from zv import mvccload
    import logging
    logging.disable(logging.CRITICAL)
    if 'step_order' in case:
        return [{'mechanism': 'c03:step-order:replay-not-supported-rerun-check', 'detail': case, 'case': case}]
    kw = dict(case.get('kw', {}))
    if kw.get('park'):
        kw['park'] = tuple(kw['park'])
    out = mvccload.run_schedule(case['seed'], case['kind'].split('+')[0], case['strategy'], scratch, **kw)
    vs = [{'mechanism': 'c03:%s:%s' % (case['kind'], v[0]), 'detail': {'witness': v[1:]}, 'case': case} for v in out['c03']]
    vs += [{'mechanism': 'c03:%s:%s' % (case['kind'], f[0]), 'detail': {'detail': f[1:]}, 'case': case} for f in out['sched']]
    return vs
