"""C17  Copying or recovering a storage reproduces its full history."""
import io
import logging
import os
import random
import shutil
import contextlib

from zv.harness import Shard, split, case_indices, case_seed, digest, guarded

ID = 'C17'
LEVEL = 'exploration'
ENGINE = 'Spec+Parser'
TECHNIQUE = ('differential runtime monitoring: full observation of source vs copy after copyTransactionsFrom (all kinds, ranges, blobs); '
             'fsrecover run on undamaged and randomly damaged files under a read-step bound, output compared with an independent '
             'parse of the damaged input')
RULE = ('copy: sources = FileStorage histories (undo, multi-undo, deleteObject, restore, packed prefix), MappingStorage, DemoStorage; '
        'destination FileStorage (with/without blob dir); full copies and iterator ranges [start, stop]; observation(dst) == '
        'observation(src) (iterator incl. status/metadata/records/un-creations, load, getTid, loadBefore at every boundary, history, '
        'undoLog, lastTransaction) before and after reopening dst; blob histories through the Connection API: every blob revision '
        'byte-equal. recover: undamaged file => equal observation; damaged file (overwrite with random/zero/0x2e bytes or '
        'truncation; lengths 1..400; positions in headers, record headers, pickles, trailing lengths) => recovery must finish '
        'within a bound on raw reads of the input, every output transaction must be a well-formed transaction of the damaged '
        'input (same tid, status, metadata, oids, stored bytes) at increasing offsets, and every transaction ending before '
        'the first damaged byte must be present. Non-trivial = distinct copy cases with undo/un-creation records or ranges, and '
        'distinct damage cases where the damage hit a committed transaction (not only the tail).')
LEVEL_TEXT = ('Held on generated sources x copy modes and on generated damages; outputs are compared with the source observation '
              'or with an independent parser of the damaged input; termination is decided on logical read steps. Not a proof.')
LEVEL_NOTE = ('Damage inside pickle bytes is undetectable (no checksum): the transaction of the damaged input is what must come out. '
              'Back-pointer records whose target lies in damaged bytes are compared by oid only. MappingStorage/BlobStorage(Mapping) '
              'are not valid copy destinations in this tree (tpc_begin signature) and are not used as such.')
ASSUMPTIONS = ['reference for copies = observation of the source (vouched for by C04)', 'parser in zv/fsparse.py is trusted']
REQUIRED_COUNTERS = ('copies_compared', 'range_copies_compared', 'recoveries_undamaged', 'recoveries_damaged', 'blob_revisions_compared',
                     'prefix_before_damage_checks')


def shards(tier, seed):
    return split(tier, seed, 4000, 200000, 45, 900)


class StepBound(Exception):
    pass


class CountingFile(io.FileIO):
    bound = None
    reads = 0

    def read(self, n=-1):
        CountingFile.reads += 1
        if CountingFile.bound is not None and CountingFile.reads > CountingFile.bound:
            raise StepBound(CountingFile.reads)
        return super().read(n)


def strip(obs):
    o = dict(obs)
    o.pop('size', None)
    return o


def build_source(rnd, d, FSM, sh):
    import ZODB.MappingStorage
    import ZODB.DemoStorage
    from zv.driver import Driver
    from ZODB.serialize import referencesf
    from persistent.TimeStamp import TimeStamp
    kind = rnd.choice(['file'] * 6 + ['mapping', 'demo'])
    if kind == 'file':
        path = os.path.join(d, 'Src.fs')
        st = FSM.FileStorage(path)
        dr = Driver(st, rnd, kind='file')
        ops = ['store'] * 4 + ['multi'] * 2 + ['undo'] * 3 + ['undo2', 'delete', 'restore', 'empty', 'abort', 'reopen']
        fac = lambda: FSM.FileStorage(path)
        n = rnd.choice([4, 8, 14])
        if rnd.random() < 0.35:
            # focused: few objects, many (multi-)undos -> undo records pointing into multi-undo transactions that hold
            # several records of one object
            dr.oids = dr.oids[1:3]
            ops = ['store'] * 4 + ['undo'] * 4 + ['undo2'] * 3 + ['undo3', 'multi']
            n = rnd.choice([10, 16, 24])
            dr.features.add('focused-undo')
        packed = False
        for i in range(n):
            dr.step(ops, fac)
            if not packed and rnd.random() < 0.08 and dr.spec.txns:
                T = rnd.choice([t.tid for t in dr.spec.txns])
                try:
                    dr.st.pack(TimeStamp(T).timeTime() + 0.001, referencesf, gc=False)
                    packed = True
                    break            # the model is not maintained across a pack; source observation is the reference
                except Exception:
                    pass
        if packed:
            dr.features.add('packed-prefix')
            from zv.objs import cell_record
            from ZODB.Connection import TransactionMetaData
            from ZODB.utils import z64
            for j in range(rnd.randrange(0, 3)):
                t = TransactionMetaData(b'', b'pp%d' % j)
                o = dr.st.new_oid()
                dr.st.tpc_begin(t)
                dr.st.store(o, z64, cell_record('pp'), '', t)
                dr.st.tpc_vote(t)
                dr.st.tpc_finish(t)
        return kind, dr.st, dr
    if kind == 'mapping':
        st = ZODB.MappingStorage.MappingStorage()
    else:
        ZODB.DemoStorage.random = random.Random(rnd.random())
        st = ZODB.DemoStorage.DemoStorage()
    dr = Driver(st, rnd, kind='mapping')
    dr.oids = dr.oids[:5]
    for i in range(rnd.choice([3, 6, 10])):
        dr.step(['store'] * 4 + ['multi'] * 2 + ['empty', 'abort'])
    return kind, st, dr


def copy_case(sh, s, d, case):
    from zv import recfs, clock
    from zv.observe import observe, first_diff
    from zv.spec import txn_canon
    from ZODB.utils import p64, u64
    rnd = random.Random(s)
    FSM = recfs.install()
    recfs.LOG.enabled = False
    clock.install(clock.FakeClock())
    kind, src, dr = build_source(rnd, d, FSM, sh)
    it = src.iterator()
    stx = [txn_canon(t) for t in it]
    if hasattr(it, 'close'):
        it.close()
    tids = [t[0] for t in stx]
    mode = 'full'
    if tids and rnd.random() < 0.4:
        mode = 'range'
    dpath = os.path.join(d, 'Dst.fs')
    blobdir = os.path.join(d, 'dstblobs') if rnd.random() < 0.3 else None
    dst = FSM.FileStorage(dpath, blob_dir=blobdir)
    wit = {'src_kind': kind, 'mode': mode, 'trace': dr.trace, 'dst_blob_dir': bool(blobdir)}
    try:
        if mode == 'full':
            dst.copyTransactionsFrom(src)
            exp = stx
        else:
            a = rnd.choice(tids)
            b = rnd.choice([t for t in tids if t >= a])
            if rnd.random() < 0.3:
                a = p64(u64(a) - 1)
            wit['range'] = (a, b)
            it = src.iterator(a, b)
            if kind == 'file':
                dst.copyTransactionsFrom(it)
            else:
                class W:
                    def iterator(self):
                        return it
                dst.copyTransactionsFrom(W())
            exp = [t for t in stx if a <= t[0] <= b]
        for reopen in (False, True):
            if reopen:
                dst.close()
                dst = FSM.FileStorage(dpath, blob_dir=blobdir)
            it = dst.iterator()
            got = [txn_canon(t) for t in it]
            it.close()
            if mode == 'full':
                so, do = strip(observe(src, undolog=(kind == 'file'))), strip(observe(dst, undolog=(kind == 'file')))
                # a packed source may remember (in memory) a last transaction that the pack removed entirely:
                # the copy must report the newest transaction it was given
                so['last'] = ('ok', stx[-1][0] if stx else b'\0' * 8)
                if kind != 'file' or 'packed-prefix' in dr.features:
                    # MappingStorage history has another shape; a packed source cannot walk its own revision
                    # chain across packed records (prev pointers are reset), the copy can: answers for snapshots
                    # before the source's pack time are outside any guarantee and not compared
                    for key in ('history', 'loadBefore'):
                        so.pop(key, None)
                        do.pop(key, None)
                df = first_diff(do, so)
                sh.count('copies_compared')
                if df:
                    sh.violation('c17:copy:%s-differs-between-source-and-copy' % df[0], dict(wit, diff=df, reopen=reopen), case)
                    return None
            else:
                sh.count('range_copies_compared')
                if got != exp:
                    sh.violation('c17:copy:range-copy-transactions-differ', dict(wit, src=[t[0] for t in exp], dst=[t[0] for t in got], reopen=reopen), case)
                    return None
                last = {}
                for t in exp:
                    for (o, dta) in t[5]:
                        last[o] = (dta, t[0])
                from zv.spec import canon
                for o, (dta, tid) in last.items():
                    g = canon(dst.load, o)
                    e = ('POSKeyError',) if dta is None else ('ok', (dta, tid))
                    if g != e:
                        sh.violation('c17:copy:range-copy-load-differs', dict(wit, oid=o, reopen=reopen), case)
                        return None
    except Exception as e:
        import traceback
        tb = traceback.extract_tb(e.__traceback__)
        sh.violation('c17:copy:raises-%s' % type(e).__name__,
                     dict(wit, exc=repr(e)[:200], where=['%s:%d' % (os.path.basename(f.filename), f.lineno) for f in tb[-3:]]), case)
        return None
    finally:
        for st in (dst, src):
            try:
                st.close()
            except Exception:
                pass
    feats = dr.features
    nt = mode == 'range' or any(f.startswith('undo') or f in ('delete', 'packed-prefix') or f.startswith('restore') for f in feats)
    return (digest('copy', kind, mode, dr.trace, wit.get('range')) if nt else None, {'seed': s, 'what': 'copy', 'src': kind, 'mode': mode, 'trace': dr.trace[:12]})


def blob_copy_case(sh, s, d, case):
    import ZODB
    import ZODB.blob
    import transaction
    from zv import recfs, clock
    from zv.spec import txn_canon
    from ZODB.POSException import UndoError
    rnd = random.Random(s)
    FSM = recfs.install()
    recfs.LOG.enabled = False
    clock.install(clock.FakeClock())
    src = FSM.FileStorage(os.path.join(d, 'BS.fs'), blob_dir=os.path.join(d, 'bsblobs'))
    db = ZODB.DB(src)
    tm = transaction.TransactionManager()
    c = db.open(tm)
    trace = []
    for i in range(rnd.choice([3, 6, 9])):
        tm.begin()
        op = rnd.choice(['new', 'new', 'rewrite', 'append', 'undo', 'plain'])
        names = sorted(k for k in c.root().keys() if k.startswith('b'))
        if op == 'new' or (op in ('rewrite', 'append') and not names):
            b = ZODB.blob.Blob()
            with b.open('w') as f:
                f.write(b'blob %d %d ' % (s, i) * rnd.randrange(1, 50))
            c.root()['b%d' % i] = b
        elif op == 'rewrite':
            with c.root()[rnd.choice(names)].open('w') as f:
                f.write(b'rewritten %d' % i)
        elif op == 'append':
            with c.root()[rnd.choice(names)].open('a') as f:
                f.write(b'+appended %d' % i)
        elif op == 'plain':
            c.root()['p%d' % i] = i
        elif op == 'undo':
            info = [x for x in db.undoInfo(0, 4) if x['description'] != 'initial database creation']
            if not info:
                tm.abort()
                continue
            db.undo(rnd.choice(info)['id'], tm.get())
            try:
                tm.commit()
                trace.append('undo')
            except UndoError:
                tm.abort()
            continue
        tm.get().note('%s%d' % (op, i))
        tm.commit()
        trace.append(op)
    c.close()
    dst = FSM.FileStorage(os.path.join(d, 'BD.fs'), blob_dir=os.path.join(d, 'bdblobs'))
    try:
        dst.copyTransactionsFrom(src)
        its, itd = src.iterator(), dst.iterator()
        a, b = [txn_canon(t) for t in its], [txn_canon(t) for t in itd]
        its.close()
        itd.close()
        if a != b:
            sh.violation('c17:copy:blob-storage-transactions-differ', {'trace': trace}, case)
            return None
        n = 0
        for t in a:
            for (o, dta) in t[5]:
                if dta is not None and ZODB.blob.is_blob_record(dta):
                    with open(src.loadBlob(o, t[0]), 'rb') as f1, open(dst.loadBlob(o, t[0]), 'rb') as f2:
                        n += 1
                        sh.count('blob_revisions_compared')
                        if f1.read() != f2.read():
                            sh.violation('c17:copy:blob-bytes-differ', {'oid': o, 'tid': t[0], 'trace': trace}, case)
                            return None
    finally:
        dst.close()
        db.close()
    return (digest('blobcopy', trace, s) if 'undo' in trace or n > 2 else None, {'seed': s, 'what': 'blob-copy', 'trace': trace})


def all_txns_in(b):
    """every offset at which a structurally complete transaction starts in b: {pos: txn dict}"""
    from zv.fsparse import parse
    out = {}
    n = len(b)
    import struct
    for p in range(4, n - 30):
        tlen = struct.unpack_from('>Q', b, p + 8)[0]
        if tlen < 23 or p + tlen + 8 > n:
            continue
        if b[p + tlen:p + tlen + 8] != b[p + 8:p + 16]:
            continue
        txns, end, probs = parse(b[:p + tlen + 8], start=p)
        if txns and txns[0]['pos'] == p:
            out[p] = txns[0]
    return out


def random_damage(drnd, good, txg):
    kindd = drnd.choice(['random', 'zero', 'dots', 'truncate', 'random', 'dots'])
    pos = drnd.randrange(4, len(good))
    if drnd.random() < 0.5 and txg:
        t = drnd.choice(txg)
        pos = drnd.choice([t['pos'] + drnd.randrange(0, 23), t['pos'] + t['tlen'] + drnd.randrange(0, 8)] +
                          [r['pos'] + drnd.randrange(0, 42) for r in t['records']])
        pos = min(pos, len(good) - 1)
    ln = drnd.choice([1, 1, 2, 8, 23, 50, 400])
    if kindd == 'truncate':
        bad = good[:pos]
    else:
        fill = {'random': bytes(drnd.randrange(256) for _ in range(ln)), 'zero': b'\0' * ln, 'dots': b'.' * ln}[kindd]
        bad = good[:pos] + fill[:len(good) - pos] + good[pos + ln:]
    return kindd, pos, ln, bad


def recover_case(sh, s, d, case, only_damage=None):
    import ZODB.fsrecover as R
    from zv import recfs, clock
    from zv.driver import Driver
    from zv.fsparse import parse, resolve
    from zv.observe import observe, first_diff
    from zv.spec import txn_canon
    rnd = random.Random(s)
    FSM = recfs.install()
    recfs.LOG.enabled = False
    clock.install(clock.FakeClock())
    path = os.path.join(d, 'In.fs')
    st = FSM.FileStorage(path)
    dr = Driver(st, rnd, kind='file')
    ops = ['store'] * 5 + ['multi'] * 2 + ['undo'] * 2 + ['delete', 'restore', 'empty']
    for i in range(rnd.choice([3, 6, 10])):
        dr.step(ops)
    src_obs = strip(observe(dr.st))
    dr.st.close()
    with open(path, 'rb') as f:
        good = f.read()
    R.open = lambda p, m='r', *a: CountingFile(p, m.replace('b', '')) if 'r' in m and '+' not in m and 'w' not in m else io.open(p, m, *a)

    def run(inp):
        outp = os.path.join(d, 'Out.fs')
        for x in os.listdir(d):
            if x.startswith('Out.fs'):
                os.remove(os.path.join(d, x))
        CountingFile.reads = 0
        CountingFile.bound = 400 + 40 * (os.path.getsize(inp) // 64 + 1)
        buf = io.StringIO()
        try:
            with contextlib.redirect_stdout(buf), contextlib.redirect_stderr(buf):
                R.recover(inp, outp, verbose=0)
            return outp, None
        except StepBound:
            return outp, 'bound'
        except SystemExit:
            return outp, 'die'
        except Exception as e:
            return outp, e
        finally:
            CountingFile.bound = None
    # undamaged
    if only_damage is None:
        outp, err = run(path)
        sh.count('recoveries_undamaged')
        if err is not None:
            sh.violation('c17:recover:undamaged-file-%s' % ('does-not-terminate' if err == 'bound' else 'raises-%s' % type(err).__name__),
                         {'trace': dr.trace, 'err': repr(err)[:200]}, case)
            return None
        o = FSM.FileStorage(outp)
        df = first_diff(strip(observe(o)), src_obs)
        o.close()
        if df:
            sh.violation('c17:recover:undamaged-output-differs:%s' % df[0], {'diff': df, 'trace': dr.trace}, case)
            return None
    txg, endg, _ = parse(good)
    ndam = 0
    hits = 0
    for k in range(9):
        drnd = random.Random(s * 31 + k)
        if only_damage is not None and k != only_damage:
            continue
        if len(good) < 40:
            break
        if k >= 6:
            # targeted: the id of one transaction becomes equal to / lower than its predecessor's, or higher than its successors'
            if len(txg) < 2:
                continue
            from ZODB.utils import p64, u64
            i = drnd.randrange(1, len(txg))
            prev = txg[i - 1]['tid']
            newtid = {6: prev, 7: p64(max(0, u64(prev) - drnd.choice([1, 1 << 20]))), 8: p64(u64(txg[-1]['tid']) + drnd.choice([1, 1 << 33]))}[k]
            kindd, pos, ln = ('tid-equal', 'tid-lower', 'tid-higher')[k - 6], txg[i]['pos'], 8
            bad = good[:pos] + newtid + good[pos + 8:]
            sh.count('targeted_tid_damages')
        else:
            kindd = None
        if kindd is None:
            kindd, pos, ln, bad = random_damage(drnd, good, txg)
        if bad == good:
            continue
        inp = os.path.join(d, 'Bad.fs')
        with open(inp, 'wb') as f:
            f.write(bad)
        outp, err = run(inp)
        ndam += 1
        sh.count('recoveries_damaged')
        wit = {'damage': (kindd, pos, ln), 'file_size': len(good), 'trace': dr.trace}
        c2 = dict(case, damage=k)
        if err == 'bound':
            # deciding feature for the classifier: a '.' within the last 8 bytes of the input
            tail_dot = b'.' in bad[-8:]
            sh.violation('c17:recover:does-not-terminate%s' % (':dot-in-last-8-bytes' if tail_dot else ''), dict(wit, reads=CountingFile.reads), c2)
            continue
        if err is not None and err != 'die':
            sh.violation('c17:recover:raises-%s' % type(err).__name__, dict(wit, err=repr(err)[:200]), c2)
            continue
        if err == 'die':
            continue
        with open(outp, 'rb') as f:
            ob = f.read()
        otx, oend, oprob = parse(ob)
        cand = all_txns_in(bad)
        first_bad = min(i for i in range(min(len(good), len(bad))) if good[i] != bad[i]) if kindd != 'truncate' else len(bad)
        if first_bad < endg and any(t['pos'] + t['tlen'] + 8 > first_bad for t in txg):
            hits += 1
        lastpos = 0
        okall = True
        for t in otx:
            m = [p for p in sorted(cand) if p >= lastpos and cand[p]['tid'] == t['tid']]
            found = None
            for p in m:
                c = cand[p]
                same = (c['status'], c['user'], c['desc'], c['ext']) == (t['status'], t['user'], t['desc'], t['ext']) and \
                    [r['oid'] for r in c['records']] == [r['oid'] for r in t['records']]
                if same:
                    for rc, ro in zip(c['records'], t['records']):
                        # the data a record stands for - its own, or what its back pointer leads to in the (damaged) input
                        try:
                            want = resolve(bad, rc)
                        except Exception:
                            want = rc['data'] if rc['plen'] else NotImplemented      # pointer into the damage: no expectation
                        if want is not NotImplemented and resolve(ob, ro) != want:
                            same = False
                if same:
                    found = p
                    break
            if found is None:
                sh.violation('c17:recover:output-transaction-not-in-damaged-input', dict(wit, tid=t['tid']), c2)
                okall = False
                break
            lastpos = found + 1
        if not okall:
            continue
        sh.count('prefix_before_damage_checks')
        need = [t['tid'] for t in txg if t['pos'] + t['tlen'] + 8 <= first_bad and t['status'] != 'u']
        have = [t['tid'] for t in otx]
        if have[:len(need)] != need:
            sh.violation('c17:recover:transaction-before-damage-missing', dict(wit, need=need, have=have), c2)
    return (digest('recover', s, dr.trace) if hits else None, {'seed': s, 'what': 'recover', 'damages': ndam, 'trace': dr.trace[:10]})


def run_shard(params):
    logging.disable(logging.CRITICAL)
    sh = Shard(params)
    for i in case_indices(params):
        if not sh.time_left():
            break
        s = case_seed(params, i)
        which = ('copy', 'recover', 'copy', 'recover', 'blob')[i % 5]
        case = {'seed': s, 'which': which}
        d = sh.fresh_dir('c17')
        f = {'copy': copy_case, 'recover': recover_case, 'blob': blob_copy_case}[which]
        r = guarded(sh, 'c17', case, lambda: f(sh, s, d, case))
        if r:
            sh.case(r[0], r[1])
        else:
            sh.case(None)
    return sh.result()


def replay(case, scratch):
    logging.disable(logging.CRITICAL)
    sh = Shard({'scratch': scratch})
    f = {'copy': copy_case, 'recover': recover_case, 'blob': blob_copy_case}[case['which']]
    if case['which'] == 'recover' and 'damage' in case:
        guarded(sh, 'c17', case, lambda: recover_case(sh, case['seed'], sh.fresh_dir('c17'), case, only_damage=case['damage']))
    else:
        guarded(sh, 'c17', case, lambda: f(sh, case['seed'], sh.fresh_dir('c17'), case))
    return sh.violations
