"""C09  Index and side files are only caches; a read-only open changes nothing."""
import hashlib
import logging
import os
import random
import shutil

from zv.harness import Shard, split, case_indices, case_seed, digest, guarded

ID = 'C09'
LEVEL = 'fault_enumeration'
ENGINE = 'RecFS+Crash'
TECHNIQUE = ('differential runtime monitoring over enumerated index variants: open(data, index variant) vs open(data, no index) '
             'on the real FileStorage for every index the recorded history ever saved, their truncations and leftover side '
             'files; raw-op monitor + directory hash for read-only sessions')
RULE = ('per generated FileStorage history (stores/undo/delete/restore/many close+reopen, optional pack followed by more commits): '
        'data states D = final file, files at random commit boundaries and torn crash cuts (trailing c-status transaction); '
        'index variants V = every .index the history saved at or before D (captured from the RecFS rename op, incl. pre-pack ones), '
        'byte truncations of each (quick: 10 cuts, thorough: every 1..64-byte step + pickle boundaries), zero-length, and leftover '
        '.tmp/.lock/.pack/.old/.index_tmp/.tr0 garbage. Oracle: open must not raise and the full observation (iterator, load, '
        'getTid, loadBefore at all boundaries, history, undoLog, len, lastTransaction) equals that of a full scan; then a commit '
        'must work. Read-only sessions (plain, on a c-tail, while a writer holds a voted transaction) must issue zero mutating raw '
        'ops, leave directory bytes+mtimes unchanged and refuse every write API. evaluations = (D,V) opens + RO sessions; '
        'distinct_nontrivial = distinct (D,V) digests where V is stale (saved before later commits/pack), truncated or accepted '
        'by the sanity check, plus RO sessions on c-tails/with active writer.')
LEVEL_TEXT = ('Every index the history saved and every sampled truncation of it is tried against later data states of the same '
              'database with the real open path, and compared with a full scan; enumerated per history, sampled over histories.')
LEVEL_NOTE = 'Bit damage inside an index is excluded by the property. Trusts the no-index scan as reference (vouched for by C04/C01).'
ASSUMPTIONS = ['reference = open without index (full scan)', 'index variants are earlier saves of the same database or truncations']
REQUIRED_COUNTERS = ('index_variant_opens', 'stale_index_opens', 'ro_sessions', 'ro_write_calls_refused', 'indexes_accepted_by_sanity_check')

OPS = ['store'] * 4 + ['multi'] * 2 + ['undo'] * 2 + ['delete', 'restore', 'reopen', 'reopen', 'reopen', 'empty', 'abort']


def shards(tier, seed):
    return split(tier, seed, 1200, 48000, 40, 900)


def dir_fingerprint(d):
    out = {}
    for f in sorted(os.listdir(d)):
        p = os.path.join(d, f)
        if os.path.isfile(p):
            st = os.stat(p)
            with open(p, 'rb') as fh:
                out[f] = (hashlib.sha1(fh.read()).hexdigest(), st.st_mtime_ns, st.st_size)
    return out


def record(s, d, thorough):
    from zv import recfs, clock
    from zv.driver import Driver
    from zv import objs
    from ZODB.serialize import referencesf
    from ZODB.Connection import TransactionMetaData
    from ZODB.POSException import POSKeyError
    from ZODB.utils import p64, z64
    from persistent.TimeStamp import TimeStamp
    rnd = random.Random(s)
    FSM = recfs.install()
    LOG = recfs.LOG
    LOG.reset()
    clock.install(clock.FakeClock())
    path = os.path.join(d, 'Data.fs')
    fs = FSM.FileStorage(path)
    files0 = recfs.snapshot_dir(d)
    dr = Driver(fs, rnd, kind='file', log=LOG)
    factory = lambda: FSM.FileStorage(path)
    nops = rnd.choice([5, 8, 12] if not thorough else [8, 14, 22])
    for _ in range(nops):
        dr.step(OPS, factory)
    packed = False
    if rnd.random() < 0.5 and dr.spec.txns:
        # pack at a random boundary, then keep committing (stale pre-pack indexes vs packed file)
        tids = [t.tid for t in dr.spec.txns]
        T = rnd.choice(tids)
        try:
            dr.st.pack(TimeStamp(T).timeTime() + 0.001, referencesf, gc=rnd.random() < 0.3)
            packed = True
            LOG.mark('pack_ret')
        except Exception as e:
            dr.features.add('pack-raised-%s' % type(e).__name__)
        fs = dr.st
        for i in range(rnd.randrange(0, 4)):
            t = TransactionMetaData(b'', b'post-pack %d' % i)
            oid = rnd.choice(dr.oids)
            try:
                serial = fs.load(oid)[1]
            except POSKeyError:
                serial = fs._index.get(oid) and dr.spec.current(oid)[0] or z64
            fs.tpc_begin(t)
            try:
                fs.store(oid, serial, objs.cell_record('pp%d' % i), '', t)
                fs.tpc_vote(t)
                fs.tpc_finish(t)
                LOG.mark('finish_ret', 10000 + i)
            except Exception:
                fs.tpc_abort(t)
            if rnd.random() < 0.4:
                fs.close()
                fs = dr.st = factory()
    dr.st.close()
    LOG.enabled = False
    return FSM, files0, list(LOG.ops), dr, packed


def collect(files0, ops, d, mids=()):
    """replay the op log: index captures (time, bytes) and data states (time, bytes, kind); `mids` = op positions at which
    the data file is captured as it is then (inside commits, inside the pack)"""
    from zv.recfs import apply_op
    images = {k: bytearray(v) for k, v in files0.items()}
    dpath = os.path.join(d, 'Data.fs')
    ipath = dpath + '.index'
    idx = []
    data = []
    packs = []
    mid = []
    for k, op in enumerate(ops):
        if k in mids and dpath in images and len(images[dpath]) >= 4:
            mid.append((k, bytes(images[dpath]), 'mid'))
        if op[0] == 'mark':
            if op[1] == 'finish_ret':
                data.append((k, bytes(images.get(dpath, b'')), 'boundary'))
            if op[1] == 'pack_ret':
                packs.append(k)
            continue
        apply_op(images, op)
        if op[0] == 'rename' and op[2] == ipath:
            b = bytes(images[ipath])
            if not idx or idx[-1][1] != b:
                idx.append((k, b))
    data.append((len(ops), bytes(images.get(dpath, b'')), 'final'))
    return idx, data, packs, mid


def put(scratch, data, index=None, extra=None):
    shutil.rmtree(scratch, ignore_errors=True)
    os.makedirs(scratch)
    with open(os.path.join(scratch, 'Data.fs'), 'wb') as f:
        f.write(data)
    if index is not None:
        with open(os.path.join(scratch, 'Data.fs.index'), 'wb') as f:
            f.write(index)
    for name, content in (extra or {}).items():
        with open(os.path.join(scratch, name), 'wb') as f:
            f.write(content)
    return os.path.join(scratch, 'Data.fs')


def ro_session(sh, FSM, path, case, label, expect=None):
    """open read-only, use the whole read API and every write API; nothing may change on disk"""
    from zv import recfs
    from zv.observe import observe, first_diff
    from zv import objs
    from ZODB.Connection import TransactionMetaData
    from ZODB.POSException import ReadOnlyError, StorageTransactionError
    from ZODB.serialize import referencesf
    from ZODB.utils import p64, z64
    LOG = recfs.LOG
    d = os.path.dirname(path)
    before = dir_fingerprint(d)
    LOG.reset()
    sh.count('ro_sessions')
    try:
        ro = FSM.FileStorage(path, read_only=True)
    except Exception as e:
        sh.violation('c09:read-only-open-raises-%s' % type(e).__name__, {'label': label, 'exc': repr(e)[:200]}, case)
        LOG.enabled = False
        return None
    obs = None
    try:
        try:
            obs = observe(ro)
        except Exception as e:
            # the property promises "modifies no file and refuses every write" for a torn tail, not that
            # iteration over a partially written header works: tolerated there, a violation elsewhere
            if 'torn' in label:
                sh.count('ro_observation_raised_on_torn_tail')
                sh.note('ro_torn_tail_exceptions', '%s:%s' % (type(e).__name__, str(e)[:60]))
            else:
                sh.violation('c09:read-only-read-api-raises-%s' % type(e).__name__, {'label': label, 'exc': repr(e)[:200]}, case)
        t = TransactionMetaData()
        writes = [
            ('tpc_begin', lambda: ro.tpc_begin(t)),
            ('store', lambda: ro.store(p64(1), z64, objs.cell_record('x'), '', t)),
            ('deleteObject', lambda: ro.deleteObject(p64(1), z64, t)),
            ('restore', lambda: ro.restore(p64(1), p64(99), objs.cell_record('x'), '', None, t)),
            ('undo', lambda: ro.undo(b'AAAAAAAAAAA=', t)),
            ('pack', lambda: ro.pack(1e10, referencesf)),
            ('new_oid', lambda: ro.new_oid()),
        ]
        for name, f in writes:
            try:
                f()
            except ReadOnlyError:
                sh.count('ro_write_calls_refused')
            except Exception as e:
                sh.violation('c09:read-only-%s-not-refused-with-ReadOnlyError' % name, {'label': label, 'exc': repr(e)[:200]}, case)
            else:
                sh.violation('c09:read-only-%s-accepted' % name, {'label': label}, case)
        for name, f in (('tpc_vote', lambda: ro.tpc_vote(t)), ('tpc_finish', lambda: ro.tpc_finish(t))):
            try:
                f()
            except (ReadOnlyError, StorageTransactionError):
                sh.count('ro_write_calls_refused')
            except Exception as e:
                sh.violation('c09:read-only-%s-raises-%s' % (name, type(e).__name__), {'label': label}, case)
            else:
                sh.violation('c09:read-only-%s-accepted' % name, {'label': label}, case)
        ro.tpc_abort(t)
    finally:
        ro.close()
        LOG.enabled = False
    mut = [op for op in LOG.ops if op[0] in recfs.MUTATING]
    sh.count('ro_raw_ops_monitored', len(LOG.ops) + LOG.reads)
    if mut:
        sh.violation('c09:read-only-session-issued-mutating-op', {'label': label, 'ops': [(o[0], os.path.basename(str(o[1]))) for o in mut[:5]]}, case)
    after = dir_fingerprint(d)
    if after != before:
        ch = [f for f in set(before) | set(after) if before.get(f) != after.get(f)]
        sh.violation('c09:read-only-session-changed-directory', {'label': label, 'files': ch}, case)
    if expect is not None and obs is not None:
        df = first_diff(obs, expect)
        if df:
            sh.violation('c09:read-only-view-differs-from-full-scan', {'label': label, 'diff': df}, case)
    return obs


def run_case(sh, s, tier, case):
    from zv import recfs, objs
    from zv.observe import observe, first_diff
    from ZODB.Connection import TransactionMetaData
    from ZODB.utils import p64, z64
    thorough = tier == 'thorough'
    rnd = random.Random(s ^ 0x99)
    d = sh.fresh_dir('hist')
    scratch = os.path.join(sh.scratch, 'var')
    FSM, files0, ops, dr, packed = record(s, d, thorough)
    mrnd = random.Random(s ^ 0x1d)
    mids = set(mrnd.sample(range(len(ops)), min(len(ops), 6 if thorough else 2)))
    idx, data, packs, mid = collect(files0, ops, d, mids)
    sh.count('index_saves_captured', len(idx))
    sh.count('histories_with_pack', 1 if packed else 0)
    for f in dr.features:
        if f.startswith('pack-raised'):
            sh.note('pack_exceptions', f)
            sh.count('packs_raised')
    recfs.LOG.enabled = False
    # choose data states
    chosen = [data[-1]] + (rnd.sample(data[:-1], min(len(data) - 1, 3 if thorough else 1)) if len(data) > 1 else [])
    # torn tails of the final file: cut inside the last transaction -> after RW open the tail is truncated
    final = data[-1][1]
    if len(final) > 40:
        for _ in range(2 if thorough else 1):
            cut = rnd.randrange(max(5, len(final) - 300), len(final))
            chosen.append((data[-1][0], final[:cut], 'torn'))
    # crash states inside commits and inside the pack (the data file as it is at a random raw operation)
    chosen.extend(mid)
    sh.count('mid_operation_data_states', len(mid))
    for (dk, dbytes, dkind) in chosen:
        if not sh.time_left():
            break
        path = put(scratch, dbytes)
        try:
            fs = FSM.FileStorage(path)
            base = observe(fs)
            fs.close()
        except Exception as e:
            sh.violation('c09:full-scan-open-raises-%s' % type(e).__name__, {'dkind': dkind, 'exc': repr(e)[:200]}, case)
            continue
        # reference data bytes after a RW open (torn tails are truncated by the scan)
        with open(path, 'rb') as fh:
            ref_bytes = fh.read()
        variants = []
        for (ik, ib) in idx:
            if ik > dk:
                continue
            stale = ib != idx[-1][1] or dkind != 'final'
            prepack = any(ik < pk <= dk for pk in packs)
            variants.append(('saved@%d%s' % (ik, '-prepack' if prepack else ''), ib, stale))
            n = len(ib)
            if thorough:
                cuts = sorted(set(range(0, n, max(1, n // 40))) | {rnd.randrange(n) for _ in range(10)})
            else:
                cuts = sorted({0, 1, n - 1, n // 2} | {rnd.randrange(n) for _ in range(6)})
            for c in cuts:
                if 0 <= c < n:
                    variants.append(('saved@%d-cut%d' % (ik, c), ib[:c], True))
        if idx:
            junk = b'garbage' * 7
            variants.append(('leftovers', idx[-1][1] if idx[-1][0] <= dk else None, False))
        for (vname, vbytes, stale) in variants:
            extra = None
            if vname == 'leftovers':
                extra = {'Data.fs.tmp': junk, 'Data.fs.lock': b' 4242\n', 'Data.fs.pack': junk, 'Data.fs.old': junk,
                         'Data.fs.index.index_tmp': junk, 'Data.fs.tr0': junk}
            path = put(scratch, dbytes, vbytes, extra)
            sh.count('index_variant_opens')
            if stale:
                sh.count('stale_index_opens')
            wit = {'data_state': dkind, 'data_op': dk, 'variant': vname}
            try:
                fs = FSM.FileStorage(path)
            except Exception as e:
                sh.violation('c09:open-with-index-variant-raises-%s' % type(e).__name__, dict(wit, exc=repr(e)[:200]), case)
                sh.case(None)
                continue
            try:
                used = getattr(fs, '_used_index', 0)
                if used:
                    sh.count('indexes_accepted_by_sanity_check')
                got = observe(fs)
                df = first_diff(got, base)
                if df:
                    if used and 'prepack' in vname and 'cut' not in vname:
                        # whole pre-pack index accepted by the sanity check against the packed file
                        mech = 'c09:prepack-index-accepted-by-sanity-check:state-differs-from-full-scan'
                    else:
                        mech = 'c09:state-with-index-differs-from-full-scan'
                    sh.violation(mech, dict(wit, diff=df, index_used=used), case)
                else:
                    t = TransactionMetaData(b'', b'after open')
                    oid = fs.new_oid()
                    if any(oid == o for tx in got['txns'] for (o, _) in tx[5]):
                        sh.violation('c09:new_oid-collides-after-open-with-index', dict(wit, oid=oid), case)
                    fs.tpc_begin(t)
                    fs.store(oid, z64, objs.cell_record('post'), '', t)
                    fs.tpc_vote(t)
                    tid = fs.tpc_finish(t)
                    if not tid > (got['txns'][-1][0] if got['txns'] else z64):
                        sh.violation('c09:tid-not-increasing-after-open-with-index', dict(wit), case)
            except Exception as e:
                sh.violation('c09:use-after-open-raises-%s' % type(e).__name__, dict(wit, exc=repr(e)[:200]), case)
            finally:
                fs.close()
            nt = stale or used
            sh.case(digest(s, dk, dkind, vname) if nt else None)
        # read-only sessions on this data state (with the newest applicable index and without)
        applicable = [ib for (ik, ib) in idx if ik <= dk]
        for vb in ([None] + applicable[-1:]):
            path = put(scratch, dbytes, vb)
            roexp = dict(base)
            obs = guarded(sh, 'c09', case, lambda: ro_session(sh, FSM, path, case, 'ro-%s-%s' % (dkind, 'idx' if vb else 'noidx'), expect=base))
            sh.case(digest(s, dk, dkind, 'ro', vb is None) if dkind == 'torn' else None)
    # read-only while a writer holds a voted transaction
    if sh.time_left():
        path = put(scratch, data[-1][1], idx[-1][1] if idx else None)
        w = FSM.FileStorage(path)
        base = observe(w)
        t = TransactionMetaData(b'w', b'voted')
        w.tpc_begin(t)
        oid = w.new_oid()
        w.store(oid, z64, objs.cell_record('voted'), '', t)
        w.tpc_vote(t)
        guarded(sh, 'c09', case, lambda: ro_session(sh, FSM, path, case, 'ro-with-voted-writer', expect=base))
        tid = w.tpc_finish(t)
        ok = w.load(oid)[1] == tid
        w.close()
        if not ok:
            sh.violation('c09:writer-disturbed-by-read-only-session', {}, case)
        sh.case(digest(s, 'ro-writer'))
    shutil.rmtree(scratch, ignore_errors=True)
    return dr


def run_shard(params):
    logging.disable(logging.CRITICAL)
    sh = Shard(params)
    for i in case_indices(params):
        if not sh.time_left():
            break
        s = case_seed(params, i)
        case = {'seed': s, 'tier': params['tier']}
        dr = guarded(sh, 'c09', case, lambda: run_case(sh, s, params['tier'], case))
        sh.count('histories')
        if dr is not None and len(sh.samples) < 2:
            sh.samples.append({'seed': s, 'trace': dr.trace})
    return sh.result()


def replay_files(sh, case):
    """fixed witness: a data file and an index file kept under /verif/witnesses"""
    from zv import recfs
    from zv.observe import observe, first_diff
    here = os.path.dirname(os.path.dirname(os.path.dirname(os.path.abspath(__file__))))
    FSM = recfs.install()
    recfs.LOG.enabled = False
    with open(os.path.join(here, case['data']), 'rb') as f:
        dbytes = f.read()
    with open(os.path.join(here, case['index']), 'rb') as f:
        ibytes = f.read()
    scratch = os.path.join(sh.scratch, 'var')
    fs = FSM.FileStorage(put(scratch, dbytes))
    base = observe(fs)
    fs.close()
    fs = FSM.FileStorage(put(scratch, dbytes, ibytes))
    try:
        used = getattr(fs, '_used_index', 0)
        df = first_diff(observe(fs), base)
    finally:
        fs.close()
    if df:
        mech = case['mechanism_if_accepted'] if used else 'c09:state-with-index-differs-from-full-scan'
        sh.violation(mech, {'diff': df, 'index_used': used, 'witness': case['data']}, case)


def replay(case, scratch):
    logging.disable(logging.CRITICAL)
    sh = Shard({'scratch': scratch, 'budget_s': 600})
    if 'data' in case:
        guarded(sh, 'c09', case, lambda: replay_files(sh, case))
        return sh.violations
    guarded(sh, 'c09', case, lambda: run_case(sh, case['seed'], case.get('tier', 'quick'), case))
    return sh.violations
