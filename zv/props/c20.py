"""C20  Object ids are never issued twice or for an object that already exists."""
import logging
import os
import random
import shutil
import sys
import threading

from zv.harness import Shard, split, case_indices, case_seed, digest, guarded

ID = 'C20'
LEVEL = 'exploration'
ENGINE = 'Spec'
TECHNIQUE = ('runtime monitor wrapped around new_oid of the real storages: every id returned is checked against the ids issued this '
             'session and the ids present in the history model; hostile random source for DemoStorage; concurrent allocators '
             'under thread stress (tiny switch interval) and at DB level (add / savepoint / importFile)')
RULE = ('histories of new_oid calls interleaved with stores under issued ids, stores/restores of records with arbitrary explicit ids '
        '(incl. ids just above the allocator, high-bit ids, carries across byte boundaries 0xff/0xffff), aborts, undo of creations, '
        'gc packs and close/reopen on FileStorage, MappingStorage, DemoStorage stackings (mapping/file, push) with random.randint '
        'replaced by a hostile source that proposes ids present in base, in changes, already issued, then a free one. Every '
        'returned id must be absent from issued-this-session and from every oid with a revision in the model (any layer). '
        'Concurrent: 2-6 threads allocating (and storing) with sys.setswitchinterval(1e-6); DB level: add(), savepoints and '
        'importFile in several connections. Non-trivial = distinct histories where an explicit foreign id above the allocator was '
        'stored before a later allocation, or a reopen happened between allocations, or a hostile proposal was rejected.')
LEVEL_TEXT = ('Held on the generated allocation histories and stress runs: each of the ids handed out was checked online against the '
              'shadow set of issued ids and the model of stored ids. Not a proof; thread interleavings are sampled by stress only.')
LEVEL_NOTE = ('Ids of objects removed by a gc pack may be reissued after reopen (they identify nothing any more). Concurrency is '
              'stress-sampled at bytecode granularity, not enumerated.')
ASSUMPTIONS = ['uniqueness is per open session plus everything stored (incl. un-created objects, which still have revisions)']
REQUIRED_COUNTERS = ('new_oid_calls_checked', 'explicit_foreign_ids_stored', 'reopens', 'hostile_proposals', 'concurrent_allocations_checked',
                     'scheduled_allocations_checked')


def shards(tier, seed):
    return split(tier, seed, 12000, 400000, 40, 900)


class Hostile:
    """replacement for the `random` module inside ZODB.DemoStorage"""

    def __init__(self, rnd):
        self.rnd = rnd
        self.queue = []
        self.proposed = 0

    def randint(self, a, b):
        self.proposed += 1
        if self.queue:
            return self.queue.pop(0)
        return self.rnd.randint(a, min(b, 1 << 20))


def u(o):
    return int.from_bytes(o, 'big')


def p(n):
    return n.to_bytes(8, 'big')


def run_seq(sh, s, d, case):
    import ZODB.MappingStorage
    import ZODB.DemoStorage
    from zv import recfs, clock, objs
    from ZODB.Connection import TransactionMetaData
    from ZODB.POSException import POSKeyError
    from ZODB.serialize import referencesf
    from ZODB.utils import z64
    import base64
    rnd = random.Random(s)
    FSM = recfs.install()
    recfs.LOG.enabled = False
    clock.install(clock.FakeClock())
    hostile = Hostile(random.Random(s + 5))
    hrnd = random.Random(s + 9)
    urnd = random.Random(s + 13)
    ZODB.DemoStorage.random = hostile
    kind = rnd.choice(['file', 'file', 'mapping', 'demo', 'demo-file', 'demo-push', 'demo-filebase'])
    path = os.path.join(d, 'Data.fs')

    def mk():
        if kind == 'file':
            return FSM.FileStorage(path)
        if kind == 'mapping':
            return ZODB.MappingStorage.MappingStorage()
        if kind == 'demo':
            return ZODB.DemoStorage.DemoStorage()
        if kind == 'demo-file':
            return ZODB.DemoStorage.DemoStorage(base=ZODB.MappingStorage.MappingStorage(), changes=FSM.FileStorage(path))
        if kind == 'demo-push':
            return ZODB.DemoStorage.DemoStorage().push()
        if kind == 'demo-filebase':
            return ZODB.DemoStorage.DemoStorage(base=FSM.FileStorage(os.path.join(d, 'Base.fs')))
    st = mk()
    present = {}          # oid -> serial of current revision (None if un-created); every oid with any revision
    base_present = set()
    issued = set()
    trace = []
    nontrivial = False
    foreign_pending = False

    def commit(pairs, target=None, restore=False):
        tgt = target or st
        t = TransactionMetaData(b'', b'x')
        tgt.tpc_begin(t)
        for (o, data) in pairs:
            if restore:
                # (half of the restored records carry a back-pointer hint naming a transaction this storage does not have, as
                # records of the tail of a history do when only that tail is copied: the data are then written in full)
                hint = None if hrnd.random() < 0.5 else b'\x03\x10\x00\x00\x00\x00\x00\x01'
                tgt.restore(o, tgt._tid, data, '', hint, t)
            else:
                tgt.store(o, present.get(o) or z64, data, '', t)
        tgt.tpc_vote(t)
        tid = tgt.tpc_finish(t)
        for (o, data) in pairs:
            present[o] = tid if data is not None else None
        return tid
    # populate the base layer of demo storages with some ids
    if kind.startswith('demo'):
        base = st.base if kind != 'demo-push' else st.base.base
        ids = [p(rnd.choice([1, 2, 255, 256, 65535, 65536, rnd.randrange(1, 1 << 20)])) for _ in range(rnd.randrange(1, 5))]
        tb = TransactionMetaData(b'', b'base')
        base.tpc_begin(tb)
        done = set()
        for o in ids:
            if o in done:
                continue
            done.add(o)
            base.store(o, z64, objs.cell_record('base'), '', tb)
        base.tpc_vote(tb)
        tidb = base.tpc_finish(tb)
        for o in done:
            present[o] = tidb
            base_present.add(o)
    nops = rnd.choice([6, 12, 20, 30])
    for i in range(nops):
        k = rnd.choice(['alloc'] * 5 + ['alloc-store'] * 3 + ['foreign'] * 3 + ['abort', 'reopen', 'undo-create', 'pack', 'hostile', 'hostile',
                        'foreign-inflight', 'foreign-inflight'])
        if kind == 'file' and random.Random(s * 37 + i).random() < 0.08:
            k = 'crash'              # (drawn apart: the sequence of the other draws stays what it was)
        if k in ('alloc', 'alloc-store', 'abort'):
            n = rnd.choice([1, 1, 2, 5])
            got = []
            for _ in range(n):
                o = st.new_oid()
                sh.count('new_oid_calls_checked')
                if o in issued:
                    if o in present and present[o] is None:
                        # issued, stored, then un-created by undo: revisions of it are still in the storage
                        sh.violation('c20:%s:id-of-uncreated-object-reissued' % kind, {'oid': o, 'trace': trace}, case)
                    else:
                        sh.violation('c20:%s:id-issued-twice-in-one-session' % kind, {'oid': o, 'trace': trace}, case)
                    return None
                if o in present:
                    sh.violation('c20:%s:issued-id-identifies-a-stored-object' % kind,
                                 {'oid': o, 'uncreated': present[o] is None, 'in_base': o in base_present, 'trace': trace}, case)
                    return None
                issued.add(o)
                got.append(o)
                if foreign_pending:
                    nontrivial = True
            trace.append('%s(%s)' % (k, ','.join(str(u(o)) for o in got)))
            if k == 'alloc-store':
                commit([(o, objs.cell_record('a')) for o in got])
            elif k == 'abort':
                t = TransactionMetaData(b'', b'ab')
                st.tpc_begin(t)
                for o in got:
                    st.store(o, z64, objs.cell_record('ab'), '', t)
                if rnd.random() < 0.5:
                    st.tpc_vote(t)
                st.tpc_abort(t)
        elif k == 'foreign':
            # a record copied in with an arbitrary id, typically just above the allocator
            top = max([u(o) for o in issued | set(present)] or [0])
            cand = rnd.choice([top + 1, top + 2, top + 1, (top | 0xff) + 1, (top | 0xffff) + 1, top + rnd.randrange(1, 400),
                               rnd.randrange(1, 1 << 62)])
            o = p(cand)
            if o in issued or o in present:
                continue
            restore = kind == 'file' and rnd.random() < 0.5
            # (a copied-in record may be the un-creation record of an object whose creation was undone in the source - no data,
            # no earlier revision here: its id still identifies a record of this storage until a pack removes it)
            uncreation = restore and urnd.random() < 0.35
            commit([(o, None if uncreation else objs.cell_record('f'))], restore=restore)
            sh.count('explicit_foreign_ids_stored')
            if uncreation:
                sh.count('restored_uncreation_records_under_foreign_ids')
            foreign_pending = True
            trace.append('foreign(%d%s%s)' % (cand, ',restore' if restore else '', ',uncreation' if uncreation else ''))
        elif k == 'foreign-inflight':
            # a record under an explicit id just above the allocator is stored inside a transaction, ids are allocated
            # while that transaction is in flight, then it is aborted (or committed)
            top = max([u(o) for o in issued | set(present)] or [0])
            cand = rnd.choice([top + 1, top + 2, top + 8, (top | 0xff) + 1])
            fo = p(cand)
            if fo in issued or fo in present:
                continue
            t = TransactionMetaData(b'', b'inflight')
            st.tpc_begin(t)
            restore = kind == 'file' and rnd.random() < 0.5
            if restore:
                st.restore(fo, st._tid, objs.cell_record('fi'), '', None, t)
            else:
                st.store(fo, z64, objs.cell_record('fi'), '', t)
            mid = []
            bad = None
            equal_to_inflight = False
            for _ in range(rnd.choice([1, 2, 4])):
                o = st.new_oid()
                sh.count('new_oid_calls_checked')
                if o == fo:
                    # the id of a record that is only stored in the still uncommitted transaction: it identifies nothing yet -
                    # the verdict falls when that transaction commits (below); none if it is aborted
                    equal_to_inflight = True
                    continue
                if o in issued or o in present:
                    bad = o
                    break
                issued.add(o)
                mid.append(o)
            commit_it = rnd.random() < 0.4
            if commit_it:
                st.tpc_vote(t)
                tidf = st.tpc_finish(t)
                present[fo] = tidf
                sh.count('inflight_foreign_transactions_committed')
                if equal_to_inflight:
                    sh.violation('c20:%s:id-of-a-record-in-flight-issued-and-that-record-then-committed' % kind,
                                 {'id': cand, 'trace': trace[-12:]}, case)
                    return None
            else:
                if rnd.random() < 0.5:
                    st.tpc_vote(t)
                st.tpc_abort(t)
            sh.count('explicit_foreign_ids_stored')
            sh.count('allocations_during_inflight_foreign_store', len(mid))
            foreign_pending = True
            trace.append('foreign-inflight(%d,%s,mid=%s)' % (cand, 'commit' if commit_it else 'abort', ','.join(str(u(o)) for o in mid)))
            if bad is not None:
                if bad in issued and bad in present and present[bad] is None:
                    m = 'c20:%s:id-of-uncreated-object-reissued' % kind
                else:
                    m = 'c20:%s:id-issued-twice-in-one-session' % kind if bad in issued else 'c20:%s:issued-id-identifies-a-stored-object' % kind
                sh.violation(m, {'oid': bad, 'trace': trace}, case)
                return None
        elif k == 'undo-create' and kind in ('file', 'demo-file'):
            tgt = st if kind == 'file' else st.changes
            o = st.new_oid()
            sh.count('new_oid_calls_checked')
            if o in issued or o in present:
                if o in issued and o in present and present[o] is None:
                    m = 'c20:%s:id-of-uncreated-object-reissued' % kind
                else:
                    m = 'c20:%s:id-issued-twice-in-one-session' % kind if o in issued else 'c20:%s:issued-id-identifies-a-stored-object' % kind
                sh.violation(m, {'oid': o, 'trace': trace}, case)
                return None
            issued.add(o)
            tid = commit([(o, objs.cell_record('uc'))])
            t = TransactionMetaData(b'', b'undo')
            st.tpc_begin(t)
            tgt.undo(base64.encodebytes(tid).rstrip(), t)
            st.tpc_vote(t)
            st.tpc_finish(t)
            present[o] = None         # un-created: revisions of it are still in the storage
            trace.append('undo-create(%d)' % u(o))
        elif k == 'reopen' and kind == 'file':
            st.close()
            st = mk()
            issued = set()           # new session
            sh.count('reopens')
            nontrivial = True
            trace.append('reopen')
        elif k == 'crash' and kind == 'file':
            # the process dies with a transaction in flight (stored only / voted: the file then ends with a complete record
            # whose checkpoint flag is still set / voted and the tail torn); the history goes on in a copy of the data file as
            # it was at that instant, with or without the (possibly stale) index file
            phase = rnd.choice(['stored', 'voted', 'voted', 'voted-torn'])
            t = TransactionMetaData(b'', b'in flight at the crash')
            st.tpc_begin(t)
            for _ in range(rnd.choice([1, 3])):
                o = st.new_oid()
                sh.count('new_oid_calls_checked')
                if o in present:
                    sh.violation('c20:%s:issued-id-identifies-a-stored-object' % kind,
                                 {'oid': o, 'uncreated': present[o] is None, 'in_base': False, 'trace': trace}, case)
                    return None
                issued.add(o)
                st.store(o, z64, objs.cell_record('in flight ' * rnd.randrange(1, 20)), '', t)
            if phase != 'stored':
                st.tpc_vote(t)
            st._file.flush()
            crash_n = len([x for x in trace if x.startswith('crash')])
            d2 = os.path.join(d, 'crash%d' % crash_n)
            os.makedirs(d2)
            with open(path, 'rb') as f:
                img = f.read()
            if phase == 'voted-torn':
                img = img[:len(img) - rnd.randrange(1, 30)]
            with open(os.path.join(d2, 'Data.fs'), 'wb') as f:
                f.write(img)
            with_index = os.path.exists(path + '.index') and rnd.random() < 0.5
            if with_index:
                shutil.copy(path + '.index', os.path.join(d2, 'Data.fs.index'))
            st.tpc_abort(t)
            st.close()
            path = os.path.join(d2, 'Data.fs')
            st = mk()
            issued = set()           # new session
            sh.count('reopens')
            sh.count('reopens_of_a_crash_state_with_a_transaction_in_flight')
            nontrivial = True
            trace.append('crash(%s%s)' % (phase, ',index' if with_index else ''))
        elif k == 'pack' and kind == 'file':
            try:
                st.pack(1e11, referencesf, gc=False)
                # a pack to the far future legitimately removes every record of un-created objects:
                # those ids identify nothing any more
                for o in [o for o, v in present.items() if v is None]:
                    del present[o]
            except Exception:
                pass
            trace.append('pack')
        elif k == 'hostile' and kind.startswith('demo'):
            # make the next proposals collide with base ids, changes ids and issued ids
            pool = [u(o) for o in list(present) + list(issued)]
            if pool:
                hostile.queue = [rnd.choice(pool) for _ in range(rnd.randrange(1, 4))]
                st._next_oid = hostile.queue.pop(0)
                sh.count('hostile_proposals', len(hostile.queue) + 1)
                nontrivial = True
                trace.append('hostile')
    try:
        st.close()
    except Exception:
        pass
    sh.note('storage_kinds', kind)
    return (digest(kind, trace) if nontrivial else None, {'seed': s, 'kind': kind, 'trace': trace[:14]})


def crafted_uncreated(sh, d, case):
    """deterministic witness: DemoStorage over a FileStorage changes layer re-issues the id of an object
    whose creation was undone when its random source proposes that id again"""
    import ZODB.MappingStorage
    import ZODB.DemoStorage
    from zv import recfs, clock, objs
    from ZODB.Connection import TransactionMetaData
    from ZODB.utils import z64
    import base64
    FSM = recfs.install()
    recfs.LOG.enabled = False
    clock.install(clock.FakeClock())
    hostile = Hostile(random.Random(1))
    ZODB.DemoStorage.random = hostile
    st = ZODB.DemoStorage.DemoStorage(base=ZODB.MappingStorage.MappingStorage(), changes=FSM.FileStorage(os.path.join(d, 'C.fs')))
    o = st.new_oid()
    t = TransactionMetaData(b'', b'create')
    st.tpc_begin(t)
    st.store(o, z64, objs.cell_record('x'), '', t)
    st.tpc_vote(t)
    tid = st.tpc_finish(t)
    t = TransactionMetaData(b'', b'undo')
    st.tpc_begin(t)
    st.changes.undo(base64.encodebytes(tid).rstrip(), t)
    st.tpc_vote(t)
    st.tpc_finish(t)
    st._next_oid = u(o)            # the random source proposes the same id again
    sh.count('new_oid_calls_checked')
    o2 = st.new_oid()
    st.close()
    if o2 == o:
        sh.violation('c20:demo-file:id-of-uncreated-object-reissued', {'oid': o, 'crafted': True}, case)


def run_threads(sh, s, d, case):
    """concurrent allocators under thread stress"""
    import ZODB
    import ZODB.MappingStorage
    import ZODB.DemoStorage
    import transaction
    from zv import recfs, objs
    from ZODB.POSException import ConflictError
    rnd = random.Random(s)
    FSM = recfs.install()
    recfs.LOG.enabled = False
    ZODB.DemoStorage.random = random
    kind = rnd.choice(['file', 'mapping', 'demo'])
    st = {'file': lambda: FSM.FileStorage(os.path.join(d, 'T.fs')), 'mapping': ZODB.MappingStorage.MappingStorage,
          'demo': ZODB.DemoStorage.DemoStorage}[kind]()
    db = ZODB.DB(st)
    nthreads = rnd.choice([2, 3, 4, 6])
    per = rnd.choice([20, 50, 100])
    got = [[] for _ in range(nthreads)]
    errs = []
    old = sys.getswitchinterval()
    sys.setswitchinterval(1e-6)
    start = threading.Barrier(nthreads)

    def raw(i):
        start.wait()
        for _ in range(per):
            got[i].append(st.new_oid())

    def viadb(i):
        tm = transaction.TransactionManager()
        c = db.open(tm)
        start.wait()
        try:
            for j in range(per // 5):
                tm.begin()
                for _ in range(3):
                    o = objs.Cell('t%d' % i)
                    c.add(o)
                    got[i].append(o._p_oid)
                if j % 3 == 0:
                    tm.savepoint()
                    o = objs.Cell('sp')
                    c.add(o)
                    got[i].append(o._p_oid)
                if j % 4 == 1:
                    # ids issued during an import: export the subtree stored so far and import it again
                    import io
                    src = c.root().get('exp%d' % i)
                    if src is None:
                        src = c.root()['exp%d' % i] = objs.Cell('exported')
                        src.refs['child'] = objs.Cell('exported child')
                        try:
                            tm.commit()
                        except ConflictError:
                            tm.abort()
                            continue
                        tm.begin()
                    f = io.BytesIO()
                    c.exportFile(src._p_oid, f)
                    f.seek(0)
                    imp = c.importFile(f)
                    got[i].append(imp._p_oid)
                    got[i].append(imp.refs['child']._p_oid)
                    c.root()['imp%d-%d' % (i, j)] = imp
                try:
                    if j % 2:
                        tm.commit()
                    else:
                        tm.abort()
                except ConflictError:
                    tm.abort()             # several threads change the root: legitimate
        except ConflictError:
            tm.abort()
        except Exception as e:
            errs.append(repr(e)[:200])
        finally:
            c.close()
    mode = rnd.choice(['raw', 'db', 'mixed'])
    ths = []
    for i in range(nthreads):
        f = raw if mode == 'raw' or (mode == 'mixed' and i % 2) else viadb
        ths.append(threading.Thread(target=f, args=(i,)))
    try:
        for t in ths:
            t.start()
        for t in ths:
            t.join(60)
    finally:
        sys.setswitchinterval(old)
    allids = [o for g in got for o in g]
    sh.count('concurrent_allocations_checked', len(allids))
    if len(set(allids)) != len(allids):
        dup = sorted({o for o in allids if allids.count(o) > 1})[:3]
        sh.violation('c20:%s:concurrent-allocators-got-the-same-id' % kind, {'dups': dup, 'mode': mode, 'threads': nthreads}, case)
    if errs:
        sh.violation('c20:%s:allocator-thread-raised' % kind, {'errs': errs[:2]}, case)
    db.close()
    return (digest('thr', kind, mode, nthreads, per, s), {'seed': s, 'kind': kind, 'threads': nthreads, 'mode': mode, 'ids': len(allids)})


def run_sched(sh, s, d, case):
    """concurrent allocators under the deterministic baton scheduler (statement-level yields in the storages)"""
    import ZODB
    import ZODB.MappingStorage
    import ZODB.DemoStorage
    import transaction
    from zv import mvccload, objs
    from zv.sched import Sched
    from ZODB.Connection import TransactionMetaData
    from ZODB.utils import z64
    FSM = mvccload.setup(True)
    rnd = random.Random(s)
    ZODB.DemoStorage.random = random.Random(s + 1)
    kind = rnd.choice(['file', 'mapping', 'demo', 'demo-file'])
    st = {'file': lambda: FSM.FileStorage(os.path.join(d, 'S.fs')), 'mapping': ZODB.MappingStorage.MappingStorage,
          'demo': ZODB.DemoStorage.DemoStorage,
          'demo-file': lambda: ZODB.DemoStorage.DemoStorage(base=ZODB.MappingStorage.MappingStorage(), changes=FSM.FileStorage(os.path.join(d, 'SC.fs')))}[kind]()
    db = ZODB.DB(st)
    sc = Sched(s, rnd.choice(['sticky', 'pct', 'random']), stick=rnd.choice([0.5, 0.9]), pct_depth=rnd.choice([1, 2, 3]))
    got = {}

    def raw(name):
        def f():
            got[name] = [st.new_oid() for _ in range(6)]
        return f

    def viadb(name):
        def f():
            tm = transaction.TransactionManager()
            c = db.open(tm)
            ids = []
            for j in range(2):
                tm.begin()
                for _ in range(2):
                    o = objs.Cell(name)
                    c.add(o)
                    ids.append(o._p_oid)
                tm.savepoint()
                o = objs.Cell('sp')
                c.add(o)
                ids.append(o._p_oid)
                (tm.commit if j else tm.abort)()
            c.close()
            got[name] = ids
        return f
    sc.spawn('a', raw('a'))
    sc.spawn('b', raw('b') if rnd.random() < 0.5 else viadb('b'))
    sc.spawn('c', viadb('c'))
    ok = sc.run(60)
    for f in sc.failures() or ([] if ok else [('watchdog',)]):
        sh.violation('c20:%s:schedule:%s' % (kind, f[0] if f[0] != 'thread-exception' else 'thread-raises-%s' % f[2]), {'detail': f[1:]}, case)
        return None
    allids = [o for g in got.values() for o in g]
    sh.count('scheduled_allocations_checked', len(allids))
    sh.count('allocator_schedules')
    sh.count('context_switches', sc.switches)
    if len(set(allids)) != len(allids):
        sh.violation('c20:%s:concurrent-allocators-got-the-same-id' % kind, {'scheduled': True, 'dups': sorted({o for o in allids if allids.count(o) > 1})[:3]}, case)
    db.close()
    return (digest('sched', kind, sc.digest()), {'seed': s, 'kind': kind, 'scheduled': True, 'switches': sc.switches})


def run_shard(params):
    logging.disable(logging.CRITICAL)
    sh = Shard(params)
    for i in case_indices(params):
        if not sh.time_left():
            break
        s = case_seed(params, i)
        thr = (i % 8 == 7)
        schd = (i % 8 == 3)
        case = {'seed': s, 'threads': thr, 'sched': schd}
        d = sh.fresh_dir('c20')
        r = guarded(sh, 'c20', case, lambda: (run_sched if schd else run_threads if thr else run_seq)(sh, s, d, case))
        if r:
            sh.case(r[0], r[1])
        else:
            sh.case(None)
    return sh.result()


def replay(case, scratch):
    logging.disable(logging.CRITICAL)
    sh = Shard({'scratch': scratch})
    if case.get('crafted') == 'demo-uncreated':
        guarded(sh, 'c20', case, lambda: crafted_uncreated(sh, sh.fresh_dir('c20'), case))
        return sh.violations
    guarded(sh, 'c20', case, lambda: (run_sched if case.get('sched') else run_threads if case.get('threads') else run_seq)(sh, case['seed'], sh.fresh_dir('c20'), case))
    return sh.violations
