"""C06  Undo restores the pre-transaction state or changes nothing."""
import logging
import os
import random
import shutil

from zv.harness import Shard, split, case_indices, case_seed, digest, guarded

ID = 'C06'
LEVEL = 'exploration'
ENGINE = 'Spec'
TECHNIQUE = ('differential runtime monitoring: undo outcome (records written or refusal) and the full query battery of the real '
             'FileStorage vs an independent undo model; byte-identity monitor on refusal; DB-level visibility probe with two connections')
RULE = ('random FileStorage histories over objects of unresolvable (Cell) and resolvable (Counter, USet) classes with re-stores of '
        'earlier bytes (equal in effect), deleteObject, restore; undo choices: single, 2-3 transactions in one undo transaction, '
        'undo of undo, undo of creation, undo with later equal/mergeable/conflicting changes, before and after gc-less packs and '
        'reopen. After every undo attempt: accepted => records == model (merged states recomputed by the model), full battery == '
        'model; refused => model must refuse too, battery unchanged and data file byte-identical, next commit works. At the end a '
        'DB-level probe on a copy: a second connection keeps its snapshot until its next boundary and then sees the undone '
        'state; additionally worlds with committers, readers and an undoer thread run under the baton scheduler (4 of 16 shards, 35% of '
        'their budget) with the snapshot/freshness oracle of C02. Non-trivial = distinct histories with at least one accepted and one refused undo.')
LEVEL_TEXT = ('Held on the generated histories: every undo decision and its complete observable effect are compared with a model '
              'of the statement (restore / un-create / merge / refuse-and-unchanged). Not a proof.')
LEVEL_NOTE = ('Trusts the model and the independent record decoder. One corner has no verdict (undo of a non-current '
              'un-creation record: outcome adopted); post-pack model state is adopted from the iterator (pack itself is C07).')
ASSUMPTIONS = ['undo of a non-current un-creation: no verdict', 'after a pack the model is re-read from the storage iterator']
REQUIRED_COUNTERS = ('undo_accepted', 'undo_refused', 'battery_queries', 'refusal_byte_identity_checks', 'db_visibility_probes', 'undo_schedules',
                     'undo_commits_in_schedules')

OPS = ['store'] * 5 + ['multi'] * 2 + ['undo'] * 6 + ['undo2'] * 2 + ['undo3', 'delete', 'restore', 'reopen', 'pack', 'resolved']


def shards(tier, seed):
    return split(tier, seed, 4800, 200000, 40, 900)


def adopt_spec(st):
    from zv.spec import Spec, Txn, txn_canon
    it = st.iterator()
    txns = []
    for t in it:
        c = txn_canon(t)
        txns.append(Txn(c[0], c[1], c[2], c[3], c[4], c[5]))
    it.close()
    return Spec(txns)


def db_probe(sh, FSM, dr, d, case, rnd):
    """second connection sees an undo exactly at its next boundary"""
    import ZODB
    import transaction
    from zv import objs
    from zv.spec import model_undo, UndoRefused, UndoEither
    from zv.driver import model_resolver, Merged
    from ZODB.POSException import POSKeyError
    import base64
    cands = [t for t in dr.spec.txns if t.status == ' ' and t.records]
    rnd.shuffle(cands)
    pick = None
    for u in cands[:6]:
        try:
            recs = model_undo(dr.spec, [u.tid], model_resolver)
            pick = (u, recs)
            break
        except (UndoRefused, UndoEither):
            continue
    if pick is None or dr.spec.current(b'\0' * 8) is None or dr.spec.current(b'\0' * 8)[1] is None:
        return
    u, recs = pick
    w = os.path.join(d, 'probe')
    shutil.rmtree(w, ignore_errors=True)
    os.makedirs(w)
    shutil.copy(os.path.join(d, 'Data.fs'), os.path.join(w, 'Data.fs'))
    db = ZODB.DB(FSM.FileStorage(os.path.join(w, 'Data.fs')))
    try:
        tm1, tm2 = transaction.TransactionManager(), transaction.TransactionManager()
        c1, c2 = db.open(tm1), db.open(tm2)
        tm2.begin()

        def view(c, oid):
            try:
                o = c.get(oid)
                o._p_activate()
                return ('ok', dict(o.__dict__).get('payload', dict(o.__dict__).get('value', dict(o.__dict__).get('items'))))
            except POSKeyError:
                return ('POSKeyError',)

        def mview(data):
            if data is None:
                return ('POSKeyError',)
            st = data.state if isinstance(data, Merged) else objs.decode_record(data)[1]
            return ('ok', st.get('payload', st.get('value', st.get('items'))))
        before = {o: view(c2, o) for (o, _) in recs}
        exp_before = {o: mview(dr.spec.current(o)[1]) for (o, _) in recs}
        sh.count('db_visibility_probes')
        if before != exp_before:
            sh.violation('c06:db:second-connection-initial-view-wrong', {'real': before, 'model': exp_before}, case)
            return
        tm1.begin()
        db.undo(base64.encodebytes(u.tid).rstrip(), tm1.get())
        tm1.commit()
        for o in before:
            try:
                c2.get(o)._p_deactivate()
            except POSKeyError:
                pass
        mid = {o: view(c2, o) for (o, _) in recs}
        if mid != before:
            sh.violation('c06:db:undo-visible-before-boundary', {'before': before, 'mid': mid}, case)
            return
        tm2.abort()
        tm2.begin()
        after = {o: view(c2, o) for (o, _) in recs}
        exp_after = {}
        for (o, dta) in recs:
            exp_after[o] = mview(dta)
        if after != exp_after:
            sh.violation('c06:db:undo-not-visible-after-boundary', {'real': after, 'model': exp_after}, case)
        tm2.abort()
    finally:
        db.close()
        shutil.rmtree(w, ignore_errors=True)


def run_case(sh, s, d, case):
    from zv import recfs, clock
    from zv.driver import Driver, Mismatch, model_resolver
    from zv.spec import battery
    from ZODB.serialize import referencesf
    from persistent.TimeStamp import TimeStamp
    rnd = random.Random(s)
    FSM = recfs.install()
    recfs.LOG.enabled = False
    clock.install(clock.FakeClock())
    path = os.path.join(d, 'Data.fs')
    factory = lambda: FSM.FileStorage(path)
    st = factory()
    dr = Driver(st, rnd, kind='file', resolver=model_resolver)
    dr.mix_classes = True
    dr.oids = dr.oids[:5]
    nops = rnd.choice([6, 10, 16, 24])
    acc = ref = 0
    packed_T = None
    try:
        for i in range(nops):
            k = rnd.choice(OPS)
            if k == 'pack':
                if not dr.spec.txns:
                    continue
                T = rnd.choice([t.tid for t in dr.spec.txns])
                try:
                    dr.st.pack(TimeStamp(T).timeTime() + 0.001, referencesf, gc=False)
                except Exception as e:
                    # pack itself is judged by C07/C08; here it is only a way to reach post-pack undo
                    sh.count('setup_packs_raised')
                    sh.note('setup_pack_exceptions', type(e).__name__)
                    if os.path.exists(path + '.pack'):
                        os.remove(path + '.pack')
                    continue
                dr.spec = adopt_spec(dr.st)
                dr.specs_after.append(dr.spec.copy())
                dr.trace.append('pack')
                # a packed storage gives no guarantee for snapshots before the pack time (revision chains are cut):
                # from now on only queries above the latest pack time are compared
                import time as _time
                pt = TimeStamp(T).timeTime() + 0.001
                eff = TimeStamp(*_time.gmtime(pt)[:5] + (pt % 60,)).raw()      # the tid the pack time really corresponds to
                packed_T = max(packed_T or eff, eff)
                dr.features.add('pack')
                # a transaction at or before the pack time cannot be undone any more (its records lost their predecessors): an
                # undo by an id taken before the pack must be refused and change nothing
                olds = [t.tid for t in dr.spec.txns if t.tid <= eff and t.status == 'p']      # (a pack that had nothing to free marks nothing)
                if olds:
                    import base64
                    from ZODB.Connection import TransactionMetaData
                    from ZODB.POSException import UndoError
                    victim = rnd.choice(olds)
                    dr.st._file.flush()
                    with open(path, 'rb') as fh:
                        pre_bytes = fh.read()
                    tmeta = TransactionMetaData(b'', b'stale undo id')
                    dr.st.tpc_begin(tmeta)
                    sh.count('undos_of_packed_transactions_attempted')
                    try:
                        dr.st.undo(base64.encodebytes(victim).rstrip(), tmeta)
                        dr.st.tpc_vote(tmeta)
                        dr.st.tpc_finish(tmeta)
                        sh.violation('c06:undo-of-a-transaction-at-or-before-the-pack-time-accepted', {'trace': dr.trace, 'tid': victim}, case)
                        return None
                    except (UndoError, KeyError):
                        dr.st.tpc_abort(tmeta)
                    dr.st._file.flush()
                    with open(path, 'rb') as fh:
                        if fh.read() != pre_bytes:
                            sh.violation('c06:refused-undo-changed-the-data-file', {'trace': dr.trace, 'stale_id': True}, case)
                            return None
                continue
            if k == 'resolved' and packed_T is not None:
                continue        # the base revision of a stale writer may have been packed away: a refusal is then legitimate
            if k.startswith('undo'):
                with open(path, 'rb') as fh:
                    pre_bytes = fh.read()
                ntx = {'undo': 1, 'undo2': 2, 'undo3': 3}[k]
                desc = dr.op_undo(ntx)
                if desc is None:
                    continue
                dr.trace.append(desc)
                if desc == 'undo-refused':
                    ref += 1
                    sh.count('undo_refused')
                    sh.count('refusal_byte_identity_checks')
                    dr.st._file.flush()
                    with open(path, 'rb') as fh:
                        post = fh.read()
                    if post != pre_bytes or dr.st.getSize() != len(pre_bytes):
                        sh.violation('c06:refused-undo-changed-the-data-file', {'trace': dr.trace, 'len': (len(pre_bytes), len(post))}, case)
                        return None
                else:
                    acc += 1
                    sh.count('undo_accepted')
                n, df = battery(dr.st, dr.spec, 'file', counter=sh.count, min_tid=packed_T)
                if df:
                    sh.violation('c06:%s-after-%s-differs-from-undo-model' % (df[0][0][0], 'refused-undo' if desc == 'undo-refused' else 'undo'),
                                 {'first': df[0], 'trace': dr.trace}, case)
                    return None
            else:
                dr.step([k], factory)
        dr.st._file.flush()
        db_probe(sh, FSM, dr, d, case, rnd)
    except Mismatch as e:
        sh.violation('c06:' + e.mechanism, {'detail': e.detail, 'trace': dr.trace}, case)
        return None
    finally:
        try:
            dr.st.close()
        except Exception:
            pass
    for f in dr.features:
        sh.note('features', f.split('-len-')[0])
    return (digest(dr.trace, [t.tid for t in dr.spec.txns]) if acc and ref else None, {'seed': s, 'trace': dr.trace})


def scheduled_undo(sh, params):
    """'other connections see it at their next boundary' under thread schedules: worlds with committers, readers and an
    undoer under the baton scheduler; snapshot/freshness oracle of C02 over transactions that overlap an undo"""
    import time
    from zv import mvccload
    rnd = random.Random(params['seed'] * 991 + params['shard'])
    t_end = time.time() + params['budget_s'] * 0.35
    i = 0
    while time.time() < t_end:
        i += 1
        seed = (params['seed'] * 100003 + params['shard'] * 7919 + i * 104729) & 0x7fffffff
        strategy = ('sticky', 'pct')[i % 2]
        kw = {'stick': rnd.choice([0.5, 0.9, 0.97])} if strategy == 'sticky' else {'pct_depth': rnd.choice([1, 2, 3])}
        kind = ('file', 'demo-file')[i % 2]
        case = {'scheduled': True, 'seed': seed, 'kind': kind, 'strategy': strategy, 'kw': kw}
        out = mvccload.run_schedule(seed, kind, strategy, sh.scratch, force_undo=True, **kw)
        sh.count('undo_schedules')
        sh.count('undo_commits_in_schedules', out.get('undos', 0))
        for f in out['sched']:
            sh.violation('c06:schedule:%s:%s' % (kind, f[0] if f[0] != 'thread-exception' else 'thread-raises-%s' % f[2]), {'detail': f[1:]}, case)
        for v in out['c02']:
            sh.violation('c06:schedule:%s:undo-not-seen-consistently-at-next-boundary:%s' % (kind, v[0]), {'witness': v[1:]}, case)
        sh.case(digest('us', out['digest']) if out.get('undos') and out['overlap'] else None)


def run_shard(params):
    logging.disable(logging.CRITICAL)
    sh = Shard(params)
    if params['shard'] % 4 == 0:
        try:
            scheduled_undo(sh, params)
        except Exception:
            import traceback
            sh.violation('c06:schedule:harness-or-world-raises', {'exc': traceback.format_exc()[-600:]}, {'scheduled': True})
    for i in case_indices(params):
        if not sh.time_left():
            break
        s = case_seed(params, i)
        case = {'seed': s}
        d = sh.fresh_dir('c06')
        r = guarded(sh, 'c06', case, lambda: run_case(sh, s, d, case))
        if r:
            sh.case(r[0], r[1])
        else:
            sh.case(None)
    return sh.result()


def replay(case, scratch):
    logging.disable(logging.CRITICAL)
    sh = Shard({'scratch': scratch})
    if case.get('scheduled'):
        from zv import mvccload
        out = mvccload.run_schedule(case['seed'], case['kind'], case['strategy'], scratch, force_undo=True, **case.get('kw', {}))
        return ([{'mechanism': 'c06:schedule:%s:undo-not-seen-consistently-at-next-boundary:%s' % (case['kind'], v[0]), 'detail': {'witness': v[1:]}, 'case': case} for v in out['c02']] +
                [{'mechanism': 'c06:schedule:%s:%s' % (case['kind'], f[0]), 'detail': {'detail': f[1:]}, 'case': case} for f in out['sched']])
    guarded(sh, 'c06', case, lambda: run_case(sh, case['seed'], sh.fresh_dir('c06'), case))
    return sh.violations
