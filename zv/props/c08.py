"""C08  Packing is safe under concurrent commits and under a crash at any point."""
import logging
import os
import random
import shutil

from zv.harness import Shard, split, digest, guarded

ID = 'C08'
LEVEL = 'exploration'
ENGINE = 'Sched+RecFS+Crash'
TECHNIQUE = ('(a) runtime monitoring of packer/committer/undoer/reader/second-packer threads under the deterministic baton scheduler with a '
             'final-state and error-class oracle; (b) crash-point enumeration over the recorded raw op log of real packs (writes to .pack, '
             'both renames, .old removal, index save; torn writes) reopened with the real code; (c) one-shot fault injection at every raw '
             'op of a pack with unchanged-state / lock-free / retry oracle')
RULE = ('(a) worlds on FileStorage: packer at a time before the concurrent commits, 2 committers (unique tokens on 1-3 of 4 cells), an '
        'undoer, a reader (ghostified reads) and a second packer; one schedule each (sticky / PCT / parked location); oracle: no deadlock, '
        'reader errors only ReadConflictError, final state (before and after reopen) == last successful token per cell, every '
        'successful commit and undo listed in the iterator, second pack either refused (\'Already packing\') or completes. '
        '(b) graph+undo histories, pack at a random boundary recorded under RecFS (also with a committer thread scheduled into the '
        'pack); every op-log prefix + torn cuts of .pack/.index writes is reopened: open must succeed, reachable closure at the newest '
        'snapshot and the post-pack-time transaction list must equal the pre-pack ones and contain every commit that returned before '
        'the cut, a follow-up commit must work. (c) the k-th raw op of the pack raises OSError once: pack must raise, observation '
        'unchanged, no .pack left, commit lock free, pack flag reset (next pack and next commit succeed); read-only storages refuse. '
        'evaluations = schedules + crash states + fault sites; distinct_nontrivial = distinct decision traces with a commit during the '
        'pack + distinct crash images inside the pack\'s op sequence + distinct fault sites that fired.')
LEVEL_TEXT = ('Schedules are sampled (thousands per run, statement-level yield points); crash points and fault sites are enumerated '
              'exhaustively per recorded pack (torn cuts sampled in quick), packs sampled over histories.')
LEVEL_NOTE = 'Crash model = ordered prefix + torn write, renames atomic. Equivalence of packed and unpacked files at or after the pack time is C07.'
ASSUMPTIONS = ['crash model as in C01', 'one-shot faults']
REQUIRED_COUNTERS = ('schedules', 'schedules_with_commit_during_pack', 'crash_states_reopened', 'pack_fault_sites', 'pack_faults_fired', 'second_packs_refused',
                     'concurrent_packs_recorded')
EXHAUSTIVE = {'quick': False, 'thorough': False}


def shards(tier, seed):
    return split(tier, seed, 16, 16, 50, 900)


# ------------------------------------------------------------------------------------------------ (a) schedules
def schedule_world(seed, strategy, scratch, **kw):
    from zv import mvccload
    return mvccload.rerun_on_watchdog(_schedule_world)(seed, strategy, scratch, **kw)


def _schedule_world(seed, strategy, scratch, **kw):
    import itertools
    import transaction
    import base64
    from zv import mvccload, objs
    from zv.sched import Sched
    from ZODB.POSException import ConflictError, ReadConflictError, UndoError
    from persistent.TimeStamp import TimeStamp
    if strategy == 'free':
        # real threads, original locks, bytecode-level preemption (see sched.FreeSched); never in a process with the baton scheduler
        assert not mvccload._installed
        from zv import recfs as _r
        FSM = _r.install()
        _r.LOG.enabled = False
    else:
        FSM = mvccload.setup(True)
    d = os.path.join(scratch, 'w')
    shutil.rmtree(d, ignore_errors=True)
    os.makedirs(d)
    blobs = kw.pop('blobs', False)
    db = mvccload.make_db('file-blobs' if blobs else 'file', d, FSM)
    blob_toks = {}
    # optional: the fault_k-th mutating raw operation on the .pack file fails (EIO) while committers run
    fault_k = kw.pop('fault_k', None)
    fired = []
    if fault_k:
        import errno
        from zv import recfs
        cnt = [0]

        def fault(op):
            # (writes only: a failing rename of the .pack file is the recorded two-rename finding, witnessed by `crafted`)
            if op[0] in ('write', 'create') and str(op[1]).endswith('.pack'):
                cnt[0] += 1
                if cnt[0] == fault_k:
                    fired.append(op[0])
                    return ('raise', errno.EIO)
            return None
        recfs.LOG.ops = []
        recfs.LOG.enabled = True          # (not reset(): the scheduler's I/O yield hook must stay)
        recfs.LOG.fault = fault
    NC = mvccload.NCELL
    ptid = db.lastTransaction()
    ptime = TimeStamp(ptid).timeTime() + 0.0001
    if strategy == 'free':
        from zv.sched import FreeSched
        s = FreeSched(seed)
    else:
        s = Sched(seed, strategy, **kw)
    wrnd = random.Random(seed * 13 + 5)
    uid = itertools.count(1)
    oks = []                  # (event index of return, token, cells, tid)
    undone = []
    errs = []
    pres = []
    pack_window = {}

    def writer(name, n):
        rnd = random.Random(wrnd.random())

        def f():
            tm = transaction.TransactionManager()
            c = db.open(tm)
            for k in range(n):
                tm.begin()
                try:
                    tok = '%s-%d-%d' % (name, k, next(uid))
                    cells = rnd.sample(range(NC), rnd.choice([1, 2, 3]))
                    for i in cells:
                        cell = c.root()['c%d' % i]
                        cell.base, cell.tok = cell.tok, tok
                    # some transactions are longer than a file read buffer: the packer's reads of their tail reach into whatever
                    # a committer is writing behind them
                    c.root()['c%d' % cells[0]].pad = 'p' * rnd.choice([0, 0, 9000, 20000])
                    if blobs:
                        # a new blob (a new directory in the blob area, next to the ones a pack is clearing away) or none
                        from ZODB.blob import Blob
                        withb = rnd.random() < 0.7
                        c.root()['c%d' % cells[0]].blob = Blob(tok.encode()) if withb else None
                        blob_toks[tok] = (cells[0], withb)
                    tm.get().note(tok)
                    tm.commit()
                    oks.append((s.log('commit_ret', name), tok, cells, c.root()['c%d' % cells[0]]._p_serial))
                except ConflictError:
                    tm.abort()
            c.close()
        return f

    def undoer():
        tm = transaction.TransactionManager()
        c = db.open(tm)
        for k in range(2):
            tm.begin()
            try:
                info = [x for x in db.undoInfo(0, 3) if str(x['description']).startswith(('w0', 'w1'))]
            except UndoError:
                info = []             # undo log is disabled while the pack runs
            if not info:
                tm.abort()
                s.yield_point('app')
                continue
            u = info[0]
            try:
                db.undo(u['id'], tm.get())
                tm.get().note('undo ' + str(u['description']))
                tm.commit()
                undone.append((s.log('undo_ret'), str(u['description']), base64.decodebytes(u['id'] + b'\n')))
            except (UndoError, ConflictError):
                tm.abort()
        c.close()

    def reader():
        tm = transaction.TransactionManager()
        c = db.open(tm)
        for k in range(4):
            tm.begin()
            try:
                for i in range(NC):
                    cell = c.root()['c%d' % i]
                    cell._p_deactivate()
                    cell.tok
            except ReadConflictError:
                pass
            except Exception as e:
                errs.append(('reader', type(e).__name__, repr(e)[:120]))
            tm.abort()
        c.close()

    def packer(tag):
        def f():
            pack_window[tag + '_start'] = s.log('pack_call', tag)
            try:
                db.pack(ptime)
                pres.append(tag + ':ok')
            except Exception as e:
                pres.append('%s:%s:%s' % (tag, type(e).__name__, str(e)[:60]))
            pack_window[tag + '_end'] = s.log('pack_ret', tag)
        return f
    s.spawn('w0', writer('w0', 3))
    s.spawn('w1', writer('w1', 2))
    s.spawn('u', undoer)
    s.spawn('r', reader)
    s.spawn('p', packer('p'))
    if not blobs:                     # (worlds with blobs: one packer, so that orderings can name the thread that packs)
        s.spawn('p2', packer('p2'))
        s.spawn('p3', packer('p3'))       # (a refused pack must not make room for a third one)
    try:
        ok = s.run(60)
    finally:
        if fault_k:
            recfs.LOG.fault = None
            recfs.LOG.enabled = False
            recfs.LOG.ops = []
    fails = s.failures()
    if not ok and not fails:
        fails.append(('watchdog', 60))
    out = {'viol': [], 'sched': fails, 'pack': pres, 'switches': s.switches, 'digest': s.digest(), 'during': 0, 'ok_commits': len(oks),
           'locs': dict(s.locs), 'fault_fired': bool(fired)}
    if fails:
        return out
    viol = out['viol']
    for e in errs:
        viol.append(('reader-error-other-than-ReadConflictError', e))
    good = [p for p in pres if p.endswith(':ok')]
    refused = [p for p in pres if 'Already packing' in p]
    other = [p for p in pres if p not in good and p not in refused]
    if fired:
        # the pack that met the fault fails with that error and nothing else; everybody else goes on undisturbed
        injected = [p for p in other if 'injected fault' in p]
        other = [p for p in other if p not in injected]
        # (no injected failure reported: the failed write belonged to a temp file that is discarded anyway - no verdict)
        out['fault_reported'] = bool(injected)
        if db.storage._pack_is_in_progress:
            viol.append(('pack-flag-left-set-after-failed-pack', pres))
        if db.storage._commit_lock.locked():
            viol.append(('commit-lock-held-after-failed-pack', pres))
    if other:
        viol.append(('pack-raises-unexpectedly', other))
    if not good and not fired:
        viol.append(('no-pack-completed', pres))
    out['refused'] = len(refused)
    ps, pe = pack_window.get('p_start', 0), pack_window.get('p_end', 0)
    out['during'] = sum(1 for (ev, tok, cells, tid) in oks if ps < ev < pe)
    # final state = serial replay of successful commits and undos in commit order
    last = {}
    for ev, tok, cells, tid in sorted(oks, key=lambda x: x[3]):      # commit (tid) order, not the order of returns
        for i in cells:
            last[i] = tok
    unds = {desc for (_, desc, _) in undone}
    for reopen in (False, True):
        if reopen:
            db.close()
            import ZODB
            db = ZODB.DB(FSM.FileStorage(d + '/Data.fs', blob_dir=(d + '/blobs') if blobs else None))
        it = db.storage.iterator()
        descs = [t.description for t in it]
        it.close()
        for ev, tok, cells, tid in oks:
            if tok.encode() not in descs:
                viol.append(('successful-commit-missing-from-iterator', tok, reopen))
        for (_, desc, _) in undone:
            if ('undo ' + desc).encode() not in descs:
                viol.append(('successful-undo-missing-from-iterator', desc, reopen))
        if not undone:
            c = db.open(transaction.TransactionManager())
            try:
                for i in range(NC):
                    exp = last.get(i, 'pre1-%d' % i)
                    got = c.root()['c%d' % i].tok
                    if got != exp:
                        viol.append(('final-state-differs:lost-or-wrong-commit', 'c%d' % i, exp, got, reopen))
                    elif blobs and exp in blob_toks and blob_toks[exp][0] == i:
                        b = c.root()['c%d' % i].blob
                        gotb = None if b is None else b.open('r').read()
                        if gotb != (exp.encode() if blob_toks[exp][1] else None):
                            viol.append(('final-state-differs:blob-of-a-successful-commit', 'c%d' % i, exp, repr(gotb)[:60], reopen))
            except Exception as e:
                viol.append(('final-read-raises-%s' % type(e).__name__, repr(e)[:120], reopen))
            c.close()
        else:
            # with undos the last writer per cell is an undo record: check chain integrity instead
            c = db.open(transaction.TransactionManager())
            try:
                for i in range(NC):
                    c.root()['c%d' % i].tok
            except Exception as e:
                viol.append(('final-read-raises-%s' % type(e).__name__, repr(e)[:120], reopen))
            c.close()
    try:
        db.close()
    except Exception:
        pass
    return out


# ------------------------------------------------------------------------------------------------ (b) crash enumeration, (c) faults
def record_pack(s, d, tier, threaded):
    """build a history, then record the raw ops of a pack; returns material for enumeration"""
    import ZODB
    import transaction
    from zv import recfs, clock, graphgen
    from zv.objs import strong_refs
    from ZODB.serialize import referencesf
    from persistent.TimeStamp import TimeStamp
    from zv.props.c07 import view, txn_list
    from ZODB.utils import maxtid
    rnd = random.Random(s)
    FSM = recfs.install()
    LOG = recfs.LOG
    LOG.reset()
    LOG.enabled = False
    clock.install(clock.FakeClock())
    path = os.path.join(d, 'Data.fs')
    st = FSM.FileStorage(path, pack_keep_old=rnd.random() < 0.7)
    db = ZODB.DB(st)
    trace = graphgen.build(db, rnd, rnd.choice([6, 10, 14]))
    it = st.iterator()
    tids = [t.tid for t in it]
    it.close()
    T = rnd.choice(tids[1:] if len(tids) > 1 else tids)
    ptime = TimeStamp(T).timeTime() + 0.0005
    pre_view = view(st, maxtid, strong_refs)
    pre_post = txn_list(st, T)
    db.close()
    files0 = recfs.snapshot_dir(d)
    st = FSM.FileStorage(path, pack_keep_old=st.pack_keep_old)
    LOG.reset()
    LOG.mark('pack_begin', 1)
    err = None
    try:
        st.pack(ptime, referencesf)
    except Exception as e:
        err = e
    LOG.mark('pack_ret', 1)
    LOG.enabled = False
    ops = list(LOG.ops)
    # reference outcomes of the undisturbed run: the packed state (what a pack does to a state is C07's subject; here it is
    # the second admissible outcome), and how a later commit + second pack to the same time behaves on the packed file
    ref = None
    if err is None:
        from ZODB.Connection import TransactionMetaData
        from zv.objs import cell_record
        from ZODB.utils import p64, z64
        with open(path, 'rb') as fh:
            swapped = fh.read() != bytes(files0[os.path.abspath(path)])
        ref = {'view': view(st, maxtid, strong_refs), 'post': txn_list(st, T), 'swapped': swapped}
        t = TransactionMetaData(b'', b'after failed pack')
        st.tpc_begin(t)
        st.store(p64(0x7777), z64, cell_record('x'), '', t)
        st.tpc_vote(t)
        st.tpc_finish(t)
        try:
            st.pack(ptime, referencesf)
            ref['second'] = ('ok', view(st, maxtid, strong_refs))
        except Exception as e:
            ref['second'] = ('raises', type(e).__name__)
    st.close()
    return FSM, files0, ops, T, pre_view, pre_post, trace, err, ptime, ref


def crash_pack_case(sh, s, d, tier, case):
    from zv.crash import CrashEnum, materialise
    from zv.objs import strong_refs, cell_record
    from zv.props.c07 import view, txn_list
    from ZODB.Connection import TransactionMetaData
    from ZODB.utils import maxtid, p64, z64
    hd = os.path.join(d, 'h')
    os.makedirs(hd)
    FSM, files0, ops, T, pre_view, pre_post, trace, err, ptime, ref = record_pack(s, hd, tier, False)
    if err is not None:
        sh.note('recorded_pack_exceptions', type(err).__name__)
        return trace
    sh.count('raw_ops_recorded', len(ops))
    rnd = random.Random(s ^ 0xc8)
    torn = lambda p: p.endswith('.pack') or p.endswith('.index') or p.endswith('.index_tmp')
    ce = CrashEnum(files0, ops, torn, tier == 'thorough', rnd)
    scratch = os.path.join(d, 'c')
    dpath = os.path.join(hd, 'Data.fs')
    for tag, images, info in ce:
        if not sh.time_left():
            break
        materialise(images, hd, scratch)
        sh.count('crash_states_reopened')
        wit = {'tag': tag, 'trace': trace, 'last_marker': info.get('last')}
        c2 = dict(case, tag=list(tag))
        # classification feature: between the two renames the data file name does not exist
        between = dpath not in images and (dpath + '.old') in images and (dpath + '.pack') in images
        try:
            fs = FSM.FileStorage(os.path.join(scratch, 'Data.fs'))
        except Exception as e:
            sh.violation('c08:crash:reopen-raises-%s' % type(e).__name__, dict(wit, exc=repr(e)[:200]), c2)
            sh.case(None)
            continue
        try:
            v = view(fs, maxtid, strong_refs)
            post = txn_list(fs, T)
            if (v, post) != (pre_view, pre_post) and (v, post) != (ref['view'], ref['post']):
                what = 'state-after-crash-in-pack-differs-from-packed-and-unpacked'
                if between:
                    what = 'crash-between-pack-renames:database-reopens-empty'
                sh.violation('c08:crash:' + what, dict(wit, objects=(len(pre_view), len(v)), post_txns=(len(pre_post), len(post))), c2)
            else:
                t = TransactionMetaData(b'', b'after crash')
                fs.tpc_begin(t)
                fs.store(p64(0x7777), z64, cell_record('x'), '', t)
                fs.tpc_vote(t)
                fs.tpc_finish(t)
        except Exception as e:
            sh.violation('c08:crash:use-after-reopen-raises-%s' % type(e).__name__, dict(wit, exc=repr(e)[:200]), c2)
        finally:
            fs.close()
        inside = info.get('last') == 'pack_begin'
        sh.case(digest('crash', s, tag) if inside else None)
    shutil.rmtree(scratch, ignore_errors=True)
    return trace


def crash_concurrent_case(sh, s, d, tier, case):
    """a committer scheduled into a recorded pack; every crash state of the combined op log must contain every
    commit that had returned before the cut"""
    import itertools
    import transaction
    import ZODB
    from zv import mvccload, recfs, objs
    from zv.sched import Sched
    from zv.crash import CrashEnum, materialise
    from ZODB.POSException import ConflictError
    from persistent.TimeStamp import TimeStamp
    FSM = mvccload.setup(True)
    LOG = recfs.LOG
    hd = os.path.join(d, 'h')
    os.makedirs(hd)
    LOG.reset()
    LOG.enabled = False
    db = mvccload.make_db('file', hd, FSM)
    NC = mvccload.NCELL
    ptime = TimeStamp(db.lastTransaction()).timeTime() + 0.0001
    db.close()
    files0 = recfs.snapshot_dir(hd)
    db = ZODB.DB(FSM.FileStorage(os.path.join(hd, 'Data.fs')))
    rnd = random.Random(s)
    sc = Sched(s, rnd.choice(['sticky', 'pct']), stick=rnd.choice([0.5, 0.9, 0.97]), pct_depth=rnd.choice([1, 2, 3]))
    toks = []

    def writer():
        tm = transaction.TransactionManager()
        c = db.open(tm)
        for k in range(3):
            tm.begin()
            try:
                tok = 'cw-%d' % k
                for i in rnd.sample(range(NC), 2):
                    cell = c.root()['c%d' % i]
                    cell.base, cell.tok = cell.tok, tok
                tm.get().note(tok)
                tm.commit()
                toks.append(tok)
                LOG.mark('finish_ret', len(toks))
            except ConflictError:
                tm.abort()
        c.close()

    def packer():
        LOG.mark('pack_begin', 1)
        try:
            db.pack(ptime)
        except Exception as e:
            toks.append('PACK-RAISED:%r' % e)
        LOG.mark('pack_ret', 1)
    sc.spawn('w', writer)
    sc.spawn('p', packer)
    LOG.reset()
    ok = sc.run(60)
    LOG.enabled = False
    fails = sc.failures()
    if fails or not ok:
        for f in fails or [('watchdog',)]:
            sh.violation('c08:crash-concurrent:%s' % f[0], {'detail': f[1:]}, case)
        return None
    ops = list(LOG.ops)
    try:
        db.close()
    except Exception:
        pass
    sh.count('raw_ops_recorded', len(ops))
    sh.count('concurrent_packs_recorded')
    crnd = random.Random(s ^ 0x5151)
    torn = lambda p: p.endswith('.pack') or p.endswith('Data.fs')
    ce = CrashEnum(files0, ops, torn, False, crnd)
    scratch = os.path.join(d, 'c')
    dpath = os.path.join(hd, 'Data.fs')
    oktoks = [t for t in toks if not t.startswith('PACK-RAISED')]
    for tag, images, info in ce:
        if not sh.time_left():
            break
        materialise(images, hd, scratch)
        sh.count('crash_states_reopened')
        nF = info.get('finish_ret', 0)
        between = dpath not in images and (dpath + '.old') in images and (dpath + '.pack') in images
        c2 = dict(case, tag=list(tag))
        wit = {'tag': tag, 'commits_returned': nF, 'last_marker': info.get('last')}
        try:
            fs = FSM.FileStorage(os.path.join(scratch, 'Data.fs'))
        except Exception as e:
            sh.violation('c08:crash-concurrent:reopen-raises-%s' % type(e).__name__, dict(wit, exc=repr(e)[:200]), c2)
            sh.case(None)
            continue
        try:
            it = fs.iterator()
            descs = [t.description for t in it]
            it.close()
            missing = [t for t in oktoks[:nF] if t.encode() not in descs]
            if between and len(fs) == 0:
                sh.violation('c08:crash:crash-between-pack-renames:database-reopens-empty', dict(wit, concurrent=True), c2)
            elif missing:
                what = 'crash-between-pack-renames:database-reopens-empty' if between else 'returned-commit-missing-after-crash-in-concurrent-pack'
                sh.violation('c08:crash%s:%s' % ('' if between else '-concurrent', what), dict(wit, missing=missing), c2)
            else:
                # every cell loads and shows a value some transaction stored
                for i in range(NC):
                    pass
                db2 = ZODB.DB(fs)
                cn = db2.open(transaction.TransactionManager())
                vals = [cn.root()['c%d' % i].tok for i in range(NC)]
                cn.close()
        except Exception as e:
            sh.violation('c08:crash-concurrent:use-after-reopen-raises-%s' % type(e).__name__, dict(wit, exc=repr(e)[:200]), c2)
        finally:
            try:
                fs.close()
            except Exception:
                pass
        sh.case(digest('cc', s, tag) if info.get('last') in ('pack_begin', 'finish_ret') and nF else None)
    shutil.rmtree(scratch, ignore_errors=True)
    return ['concurrent pack, %d commits' % len(oktoks)]


def fault_pack_case(sh, s, d, tier, case):
    import errno
    from zv import recfs
    from zv.objs import strong_refs, cell_record
    from zv.observe import observe, first_diff
    from ZODB.serialize import referencesf
    from ZODB.Connection import TransactionMetaData
    from ZODB.POSException import ReadOnlyError
    from ZODB.utils import p64, z64
    hd = os.path.join(d, 'h')
    os.makedirs(hd)
    FSM, files0, ops, T, pre_view, pre_post, trace, err, ptime, ref = record_pack(s, hd, tier, False)
    if err is not None:
        return trace
    LOG = recfs.LOG
    nops = len([o for o in ops if o[0] in recfs.MUTATING])
    work = os.path.join(d, 'f')
    ks = list(range(1, nops + 1))
    if tier == 'quick' and len(ks) > 14:
        ks = sorted(random.Random(s).sample(ks, 14))
    for k in ks:
        if not sh.time_left():
            break
        from zv.crash import materialise
        materialise({p: bytearray(b) for p, b in files0.items()}, hd, work)
        fs = FSM.FileStorage(os.path.join(work, 'Data.fs'))
        pre = observe(fs, full=False)
        cnt = [0]
        fired = []

        def fault(op):
            if op[0] in recfs.MUTATING:
                cnt[0] += 1
                if cnt[0] == k:
                    fired.append((op[0], os.path.basename(str(op[1]))))
                    return ('raise', errno.EIO)
            return None
        LOG.reset()
        LOG.fault = fault
        raised = None
        try:
            fs.pack(ptime, referencesf)
        except OSError as e:
            raised = e
        except Exception as e:
            raised = e
        finally:
            LOG.fault = None
            LOG.enabled = False
        sh.count('pack_fault_sites')
        wit = {'k': k, 'op': fired[:1], 'trace': trace, 'raised': repr(raised)[:120]}
        c2 = dict(case, k=k)
        if not fired:
            fs.close()
            sh.case(None)
            continue
        sh.count('pack_faults_fired')
        opname = fired[0][0] + ':' + ('pack' if fired[0][1].endswith('.pack') else 'index' if 'index' in fired[0][1] else 'old' if fired[0][1].endswith('.old') else 'data')
        try:
            after_point_of_no_return = opname in ('rename:pack', 'write:index', 'create:index', 'rename:index', 'remove:index', 'remove:old', 'unlink:old')
            if raised is None:
                sh.count('packs_completed_despite_fault')     # e.g. the failed write belonged to a temp file that is discarded anyway
            # compare what must be preserved: current loads and post-T transactions (a completed swap is the packed state)
            from zv.props.c07 import view, txn_list
            from ZODB.utils import maxtid
            with open(os.path.join(work, 'Data.fs'), 'rb') as fh:
                swapped = fh.read() != bytes(files0[os.path.abspath(os.path.join(hd, 'Data.fs'))])
            state = (view(fs, maxtid, strong_refs), txn_list(fs, T))
            if not swapped and state != (pre_view, pre_post):
                sh.violation('c08:fault:state-changed-by-failed-pack(%s)' % opname, wit, c2)
            elif swapped and state != (ref['view'], ref['post']):
                sh.violation('c08:fault:data-file-replaced-by-something-else-than-the-packed-state(%s)' % opname, wit, c2)
            elif raised is None and swapped != ref['swapped']:
                sh.violation('c08:fault:pack-returns-normally-without-having-packed(%s)' % opname, wit, c2)
            elif fs._commit_lock.locked():
                sh.violation('c08:fault:commit-lock-held-after-failed-pack(%s)' % opname, wit, c2)
            elif fs._pack_is_in_progress:
                sh.violation('c08:fault:pack-flag-left-set-after-failed-pack(%s)' % opname, wit, c2)
            else:
                if raised is not None and os.path.exists(os.path.join(work, 'Data.fs.pack')):
                    sh.count('pack_file_left_behind_after_failed_pack')       # a leftover side file is harmless (C09); not a verdict
                t = TransactionMetaData(b'', b'after failed pack')
                fs.tpc_begin(t)
                fs.store(p64(0x7777), z64, cell_record('x'), '', t)
                fs.tpc_vote(t)
                fs.tpc_finish(t)
                # the next pack behaves as on the undisturbed run: as its first pack when nothing was replaced, as its second
                # (commit, pack again to the same time) when the packed file is in place
                want = ref['second'] if swapped else ('ok', ref['view'])
                try:
                    fs.pack(ptime, referencesf)
                    got = ('ok', view(fs, maxtid, strong_refs))
                except Exception as e:
                    got = ('raises', type(e).__name__)
                    if want[0] == 'ok':
                        sh.violation('c08:fault:next-pack-raises-%s-after-failed-pack(%s)' % (type(e).__name__, opname), dict(wit, exc=repr(e)[:200]), c2)
                if got != want and not (got[0] == 'raises' and want[0] == 'ok'):
                    sh.violation('c08:fault:state-differs-after-retry-pack(%s)' % opname, dict(wit, got=got[0], want=want[0]), c2)
                sh.count('retry_packs_compared_with_undisturbed_run')
        except Exception as e:
            if opname == 'rename:pack':
                # deciding feature: the failing op is the second rename; Data.fs was already renamed to Data.fs.old
                sh.violation('c08:fault:second-pack-rename-fails:data-file-gone-and-storage-unusable', dict(wit, exc=repr(e)[:200]), c2)
            else:
                sh.violation('c08:fault:use-after-failed-pack-raises-%s(%s)' % (type(e).__name__, opname), dict(wit, exc=repr(e)[:200]), c2)
        finally:
            try:
                fs.close()
            except Exception:
                pass
        sh.case(digest('fault', opname, s % 7))
    # read-only storage refuses
    from zv.crash import materialise
    materialise({p: bytearray(b) for p, b in files0.items()}, hd, work)
    ro = FSM.FileStorage(os.path.join(work, 'Data.fs'), read_only=True)
    try:
        ro.pack(ptime, referencesf)
        sh.violation('c08:pack-on-read-only-storage-accepted', {}, case)
    except ReadOnlyError:
        sh.count('read_only_pack_refused')
    ro.close()
    shutil.rmtree(work, ignore_errors=True)
    return trace


def crafted_blob_abort_during_copy(sh, d, case):
    """regression scenario: with pack_keep_old (the default) the pack finally walks the blob directory, without any lock, to link
    the remaining files into <blobs>.old; a blob transaction that stores its file and aborts while the walk is under way (here: from
    a wrapper around os.walk, in the packing thread, where no lock is held) must not make the pack fail"""
    import ZODB
    from zv import recfs, objs
    from ZODB.blob import Blob
    from ZODB.Connection import TransactionMetaData
    from ZODB.utils import z64
    FSM = recfs.install()
    recfs.LOG.reset()
    recfs.LOG.enabled = False
    st = FSM.FileStorage(os.path.join(d, 'Data.fs'), blob_dir=os.path.join(d, 'blobs'))
    db = ZODB.DB(st)
    with db.transaction() as c:
        c.root()['keep'] = Blob(b'keep')
        c.root()['g'] = Blob(b'garbage')
    with db.transaction() as c:
        del c.root()['g']
    with db.transaction() as c:
        data = st.load(c.root()['keep']._p_oid)[0]
    state = {}

    class WalkProxy:
        def __getattr__(self, n):
            return getattr(recfs.PROXY, n)

        def walk(self, top):
            for tup in os.walk(top):
                if 't' not in state:
                    t = state['t'] = TransactionMetaData()
                    st.tpc_begin(t)
                    fn = os.path.join(d, 'newblob')
                    with open(fn, 'wb') as f:
                        f.write(b'new')
                    oid = st.new_oid()
                    st.storeBlob(oid, z64, data, fn, '', t)
                    state['dir'] = os.path.abspath(st.fshelper.getPathForOID(oid))
                elif 'aborted' not in state and os.path.abspath(tup[0]) == state['dir'] and tup[2]:
                    st.tpc_abort(state['t'])          # the file the walk has just listed goes away
                    state['aborted'] = 1
                yield tup
    FSM.os = WalkProxy()
    try:
        db.pack()
    except Exception as e:
        sh.violation('c08:blobs:pack-fails-when-a-blob-transaction-aborts-during-its-keep-old-copy',
                     {'crafted': True, 'exc': '%s: %s' % (type(e).__name__, str(e)[:60])}, case)
    finally:
        FSM.os = recfs.PROXY
    sh.count('crafted_blob_abort_during_pack_copy', 1 if state.get('aborted') else 0)
    with db.transaction() as c:
        if c.root()['keep'].open().read() != b'keep':
            sh.violation('c08:blobs:kept-blob-unreadable-after-pack', {'crafted': True}, case)
    db.close()


def crafted(sh, d, case):
    """deterministic witnesses for the two-rename window of pack (fixed little history, no generator involved)"""
    if case['crafted'] == 'blob-abort-during-keep-old-copy':
        return crafted_blob_abort_during_copy(sh, d, case)
    import errno
    import ZODB
    from zv import recfs, clock, objs
    from zv.crash import CrashEnum, materialise
    from ZODB.serialize import referencesf
    from persistent.TimeStamp import TimeStamp
    FSM = recfs.install()
    LOG = recfs.LOG
    LOG.reset()
    LOG.enabled = False
    clock.install(clock.FakeClock())
    hd = os.path.join(d, 'h')
    os.makedirs(hd)
    path = os.path.join(hd, 'Data.fs')
    db = ZODB.DB(FSM.FileStorage(path))
    for i in range(3):
        with db.transaction() as c:
            c.root()['a'] = objs.Cell('v%d' % i)
    T = db.lastTransaction()
    db.close()
    ptime = TimeStamp(T).timeTime() + 0.0005
    files0 = recfs.snapshot_dir(hd)
    st = FSM.FileStorage(path)
    if case['crafted'] == 'crash-between-renames':
        LOG.reset()
        st.pack(ptime, referencesf)
        st.close()
        LOG.enabled = False
        ops = list(LOG.ops)
        ce = CrashEnum(files0, ops, lambda p: False, False, random.Random(0))
        scratch = os.path.join(d, 'c')
        for tag, images, info in ce:
            if path not in images and (path + '.old') in images and (path + '.pack') in images:
                materialise(images, hd, scratch)
                sh.count('crash_states_reopened')
                fs = FSM.FileStorage(os.path.join(scratch, 'Data.fs'))
                n = len(fs)
                fs.close()
                if n == 0:
                    sh.violation('c08:crash:crash-between-pack-renames:database-reopens-empty', {'crafted': True, 'tag': tag}, case)
                break
    else:
        fired = []

        def fault(op):
            if op[0] == 'rename' and str(op[1]).endswith('.pack') and not fired:
                fired.append(1)
                return ('raise', errno.EIO)
            return None
        LOG.reset()
        LOG.fault = fault
        try:
            st.pack(ptime, referencesf)
        except Exception:
            pass
        LOG.fault = None
        LOG.enabled = False
        sh.count('pack_fault_sites')
        try:
            st.load(b'\0' * 8)
        except Exception as e:
            sh.violation('c08:fault:second-pack-rename-fails:data-file-gone-and-storage-unusable',
                         {'crafted': True, 'exc': repr(e)[:120], 'data_file_exists': os.path.exists(path)}, case)
        try:
            st.close()
        except Exception:
            pass


def run_shard(params):
    logging.disable(logging.CRITICAL)
    sh = Shard(params)
    part = params['shard'] % 4          # 0,1: schedules  2: crash  3: faults
    s0 = params['seed'] * 100003 + params['shard'] * 7919
    rnd = random.Random(s0)
    i = 0
    sweep = None
    pos = 0
    bsweep = None
    bpos = 0
    if params['shard'] in (3, 7):
        cc = {'crafted': 'blob-abort-during-keep-old-copy'}
        guarded(sh, 'c08', cc, lambda: crafted(sh, sh.fresh_dir('p'), cc))
    while sh.time_left():
        i += 1
        seed = (s0 + i * 104729) & 0x7fffffff
        if part in (0, 1):
            mode = ('sticky', 'pct', 'park', 'sticky', 'park')[i % 5]
            if params['shard'] % 8 == 1:
                mode = 'free'                       # 2 of the 8 schedule shards: freely running threads
                sh.count('free_running_worlds')
            kw = {}
            strategy = mode
            if mode == 'sticky':
                kw['stick'] = rnd.choice([0.5, 0.9, 0.97])
            elif mode == 'pct':
                kw['pct_depth'] = rnd.choice([1, 2, 3])
            elif mode == 'free':
                pass
            else:
                strategy = 'pct'
                if sweep is None:
                    dry = schedule_world(params['seed'] + 1, 'pct', sh.scratch, pct_depth=1)
                    locs = sorted((k + (o,)) for k, n in (dry.get('locs') or {}).items() for o in range(1, min(n, 2) + 1))
                    random.Random(params['seed']).shuffle(locs)
                    sweep = locs[params['shard'] // 4::4]
                    sh.count('locations_seen', len(locs))
                if sweep:
                    kw['park'] = sweep[pos % len(sweep)]
                    pos += 1
                    seed = params['seed'] + 1
                    sh.count('locations_parked')
                else:
                    kw['pct_depth'] = 2
            if mode != 'park' and i % 3 == 0:
                kw['fault_k'] = rnd.randrange(1, 40)
            if mode != 'park' and i % 4 == 1:
                kw['blobs'] = True                  # blob directory: the pack clears directories while committers make new ones
                sh.count('worlds_with_blobs')
                if mode != 'free':
                    # one thread is held back at one of its raw I/O calls or blob-layer statements (each mkdir of a makedirs is
                    # one) until everybody else has finished or is blocked ("park"), or a directory-changing call of the packer is
                    # ordered between a committer's previous step and one of the committer's directory-changing calls ("rdv");
                    # half of the worlds take a pair in which the committer's call creates a directory (in the tree the pack prunes)
                    if bsweep is None:
                        dry = schedule_world(params['seed'] + 1, 'pct', sh.scratch, pct_depth=1, blobs=True)
                        locs = sorted((k + (o,)) for k, n in (dry.get('locs') or {}).items() if k[1] in ('io', 'blob.py')
                                      for o in range(1, min(n, 6) + 1))
                        random.Random(params['seed']).shuffle(locs)
                        locs.sort(key=lambda l: l[1] != 'io')
                        pa = [('p', 'io', k, o) for k, n in (('rmdir', 2), ('rename', 4), ('remove', 2), ('mkdir', 3)) for o in range(1, n + 1)]
                        wb = [(w, 'io', k, o) for w in ('w0', 'w1') for k, n in (('mkdir', 2), ('rename', 2), ('remove', 1)) for o in range(1, n + 1)]
                        hot = [(a_, b_) for a_ in pa for b_ in wb if b_[2:] == ('mkdir', 1)]
                        rest = [(a_, b_) for a_ in pa for b_ in wb if b_[2:] != ('mkdir', 1)]
                        random.Random(params['seed'] + 1).shuffle(hot)
                        random.Random(params['seed'] + 2).shuffle(rest)
                        k_ = params['shard'] // 4
                        bsweep = {'hot': hot[k_::4] or hot, 'rest': rest[k_::4] or rest, 'park': locs[k_::4]}
                    which_ = ('hot', 'hot', 'rest', 'park')[bpos % 4]
                    lst = bsweep[which_]
                    if lst:
                        strategy = 'pct'
                        x = lst[(bpos // 4) % len(lst)]
                        kw = {'blobs': True, ('park' if which_ == 'park' else 'rdv'): x}
                        sh.count('blob_world_locations_parked' if which_ == 'park' else 'blob_world_io_pairs_ordered')
                        if which_ == 'park':
                            seed = params['seed'] + 1
                    bpos += 1
            case = {'part': 'schedule', 'seed': seed, 'strategy': strategy, 'kw': {k: (list(v) if isinstance(v, tuple) else v) for k, v in kw.items()}}
            try:
                out = schedule_world(seed, strategy, sh.scratch, **dict(kw))
            except Exception:
                import traceback
                sh.violation('c08:schedule:harness-or-world-raises', {'exc': traceback.format_exc()[-600:]}, case)
                sh.case(None)
                continue
            sh.count('schedules')
            sh.count('wall_clock_watchdog_reruns', out.get('watchdog_reruns', 0))
            if out.get('fault_fired'):
                sh.count('schedules_with_io_fault_in_concurrent_pack')
                if out.get('fault_reported'):
                    sh.count('concurrent_packs_failed_with_the_injected_error')
            sh.count('context_switches', out['switches'])
            sh.count('ok_commits', out['ok_commits'])
            sh.count('second_packs_refused', out.get('refused', 0))
            if out['during']:
                sh.count('schedules_with_commit_during_pack')
            for p in out['pack']:
                sh.note('pack_outcomes', p.split(':', 1)[1][:60])
            for f in out['sched']:
                sh.violation('c08:schedule:%s' % (f[0] if f[0] != 'thread-exception' else 'thread-raises-%s' % f[2]), {'detail': f[1:]}, case)
            for v in out['viol']:
                sh.violation('c08:schedule:%s' % v[0], {'witness': v[1:]}, case)
            sh.case(digest('sched', out['digest']) if out['during'] else None,
                    {'part': 'schedule', 'seed': seed, 'strategy': strategy, 'switches': out['switches'], 'commits_during_pack': out['during']})
        else:
            d = sh.fresh_dir('p')
            case = {'part': 'crash' if part == 2 else 'fault', 'seed': seed, 'tier': params['tier']}
            f = crash_pack_case if part == 2 else fault_pack_case
            if part == 2 and i % 3 == 0:
                case['part'] = 'crash-concurrent'
                f = crash_concurrent_case
            tr = guarded(sh, 'c08', case, lambda: f(sh, seed, d, params['tier'], case))
            sh.count('packs_recorded')
            if tr is not None and len(sh.samples) < 2:
                sh.samples.append({'part': case['part'], 'seed': seed, 'trace': tr})
    return sh.result()


def replay(case, scratch):
    logging.disable(logging.CRITICAL)
    sh = Shard({'scratch': scratch, 'budget_s': 600})
    if case.get('crafted'):
        guarded(sh, 'c08', case, lambda: crafted(sh, sh.fresh_dir('p'), case))
        return sh.violations
    if case['part'] == 'schedule':
        kw = dict(case.get('kw', {}))
        if kw.get('park'):
            kw['park'] = tuple(kw['park'])
        out = schedule_world(case['seed'], case['strategy'], scratch, **kw)
        return ([{'mechanism': 'c08:schedule:%s' % v[0], 'detail': {'witness': v[1:]}, 'case': case} for v in out['viol']] +
                [{'mechanism': 'c08:schedule:%s' % f[0], 'detail': {'detail': f[1:]}, 'case': case} for f in out['sched']])
    d = sh.fresh_dir('p')
    f = {'crash': crash_pack_case, 'crash-concurrent': crash_concurrent_case}.get(case['part'], fault_pack_case)
    guarded(sh, 'c08', case, lambda: f(sh, case['seed'], d, case.get('tier', 'quick'), case))
    if 'tag' in case:
        return [v for v in sh.violations if v['case'].get('tag') == case['tag']] or sh.violations[:0]
    if 'k' in case:
        return [v for v in sh.violations if v['case'].get('k') == case['k']]
    return sh.violations
