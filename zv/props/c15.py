"""C15  Historical connections read exactly the chosen past state and cannot write."""
import datetime
import logging
import os
import random

from zv.harness import Shard, split, case_indices, case_seed, digest, guarded

ID = 'C15'
LEVEL = 'exploration'
ENGINE = 'runner'
TECHNIQUE = ('runtime monitoring of historical connections on the real DB: full graph snapshots recorded after every live commit are the '
             'reference; historical connections opened at/before tids and datetimes are re-read repeatedly while live connections '
             'keep committing, undoing and packing; write attempts and future bounds must be refused')
RULE = ('graph histories through the Connection API (create, link, unlink, modify, cycles, garbage, undo incl. undo of creation) on '
        'FileStorage, MappingStorage and DemoStorage; after every commit the reachable graph (payloads, edges, dangling marks) is '
        'recorded under its tid. Historical connections are opened with at=tid, before=tid, before=tid+1, at/before=datetime '
        '(exact and between transactions) at random moments, stay open across later commits and packs, are returned to and re-taken '
        'from the historical pool, and must always read the snapshot of the last transaction below their bound, must not load '
        'objects created later, must refuse commits (nothing stored) and bounds beyond the newest transaction (+1) must be '
        'refused. Non-trivial = distinct (history, bound) pairs whose snapshot differs from the final state and that were re-read '
        'after at least one later commit.')
LEVEL_TEXT = ('Held on the generated histories and bounds: every historical read was compared with the snapshot recorded when that '
              'state was current. Not a proof; concurrent-thread schedules are covered by C02\'s scheduler workloads.')
LEVEL_NOTE = 'Reference snapshots are taken through a live connection right after each commit (vouched for by C02/C11). Bounds older than a pack are not compared.'
ASSUMPTIONS = ['live connection right after its own commit shows the committed state']
REQUIRED_COUNTERS = ('historical_opens', 'historical_reads_compared', 'rereads_after_later_commits', 'write_attempts_refused', 'future_bounds_refused')


def shards(tier, seed):
    return split(tier, seed, 8000, 300000, 40, 900)


def snapshot(conn):
    from ZODB.POSException import POSKeyError
    out = {}
    root = conn.root()
    todo = [root]
    while todo:
        o = todo.pop()
        if o._p_oid in out:
            continue
        try:
            o._p_activate()
            items = sorted(o.items()) if o is root else sorted(o.refs.items())
        except POSKeyError:
            out[o._p_oid] = 'dangling'
            continue
        out[o._p_oid] = (None if o is root else o.payload, [(k, v._p_oid) for k, v in items])
        todo.extend(v for k, v in items)
    return out


def to_dt(tid, plus=0.0):
    from persistent.TimeStamp import TimeStamp
    ts = TimeStamp(tid)
    base = datetime.datetime(ts.year(), ts.month(), ts.day(), ts.hour(), ts.minute())
    return base + datetime.timedelta(seconds=round(ts.second() + plus, 6))


def aware(dt, rnd):
    """the same instant as the naive-UTC dt, written naive or timezone-aware with a random UTC offset"""
    off = rnd.choice([None, None, 0, 120, -180, 330, -570])
    if off is None:
        return dt
    tz = datetime.timezone(datetime.timedelta(minutes=off))
    return dt.replace(tzinfo=datetime.timezone.utc).astimezone(tz)


def run_case(sh, s, d, case):
    import ZODB
    import ZODB.MappingStorage
    import ZODB.DemoStorage
    import transaction
    from zv import recfs, clock, graphgen
    from ZODB.POSException import POSKeyError, ReadOnlyError, ReadOnlyHistoryError
    from ZODB.utils import p64, u64, z64
    from persistent.TimeStamp import TimeStamp
    rnd = random.Random(s)
    FSM = recfs.install()
    recfs.LOG.enabled = False
    clock.install(clock.FakeClock())
    ZODB.DemoStorage.random = random.Random(s + 1)
    kind = rnd.choice(['file', 'file', 'file', 'mapping', 'demo'])
    # one history in seven moves under a DemoStorage half way: the base then has a history of its own, and historical points
    # inside it are served by the base through the demo storage
    based = random.Random(s + 5).random() < 0.15 and kind in ('file', 'mapping')
    st = {'file': lambda: FSM.FileStorage(os.path.join(d, 'Data.fs')), 'mapping': ZODB.MappingStorage.MappingStorage,
          'demo': ZODB.DemoStorage.DemoStorage}[kind]()
    db = ZODB.DB(st)
    live_tm = transaction.TransactionManager()
    snaps = []            # (tid, snapshot) in commit order

    def record():
        c = db.open(live_tm)
        live_tm.begin()
        tid = db.lastTransaction()
        if not snaps or snaps[-1][0] != tid:
            snaps.append((tid, snapshot(c)))
        live_tm.abort()
        c.close()
    record()
    hist = []             # dicts: conn, tm, bound(before tid), opened_at(len(snaps)), label
    trace = []
    packed_T = None
    pack_Ts = []
    nontrivial = set()
    nops = rnd.choice([6, 10, 16])

    def expected(before):
        cand = [sn for (t, sn) in snaps if t < before]
        return cand[-1] if cand else None

    def check(h, again):
        c = h['conn']
        h['tm'].begin()
        if packed_T is not None and h['bound'] <= packed_T:
            h['tm'].abort()
            return True
        exp = expected(h['bound'])
        sh.count('historical_reads_compared')
        if again:
            sh.count('rereads_after_later_commits')
        if rnd.random() < 0.3:
            c.cacheMinimize()
        try:
            got = snapshot(c)
        except POSKeyError as e:
            if exp is None and e.args and e.args[0] == z64:
                h['tm'].abort()
                return True          # before the first transaction nothing exists, not even the root
            sh.violation('c15:%s:historical-read-raises-POSKeyError' % kind, {'label': h['label'], 'trace': trace, 'exc': repr(e)[:200]}, case)
            return False
        except Exception as e:
            sh.violation('c15:%s:historical-read-raises-%s' % (kind, type(e).__name__), {'label': h['label'], 'trace': trace, 'exc': repr(e)[:200]}, case)
            return False
        if got != exp:
            later = [i for i, (t, sn) in enumerate(snaps) if sn == got]
            feat = ''
            if packed_T is not None and exp is not None:
                # consequence of the pack-GC family recorded under C07: the differing objects were unreachable at the
                # pack time and became reachable again later (through undo)
                dif = [o for o in set(got) | set(exp) if got.get(o) != exp.get(o)]
                for Tp in pack_Ts:            # (any of the packs made: a later pack time says nothing about what an earlier pack dropped)
                    atT = expected(p64(u64(Tp) + 1)) or {}
                    if dif and all(o not in atT for o in dif):
                        feat = ':object-unreachable-at-pack-time-relinked-later'
            sh.violation('c15:%s:historical-connection-reads-another-state%s' % (kind, feat),
                         {'label': h['label'], 'bound': h['bound'], 'trace': trace, 'matches_snapshot_index': later,
                          'expected_index': max([i for i, (t, sn) in enumerate(snaps) if t < h['bound']] or [-1]), 'reread': again}, case)
            return False
        # objects created later must not be loadable
        known = set(exp)
        for (t, sn) in snaps:
            if t >= h['bound']:
                for o in sn:
                    if o not in known and not any(o in sn2 for (t2, sn2) in snaps if t2 < h['bound']):
                        try:
                            ob = c.get(o)
                            ob._p_activate()
                            sh.violation('c15:%s:object-created-later-loadable' % kind, {'label': h['label'], 'oid': o, 'trace': trace}, case)
                            return False
                        except POSKeyError:
                            pass
                        break
                break
        if exp != snaps[-1][1] and again:
            nontrivial.add(digest(s, h['label'], h['bound']))
        h['tm'].abort()
        return True
    for i in range(nops):
        if based and i == nops // 2 and packed_T is None:      # (not behind a pack: its consequences keep the storage kind's name)
            for h in hist:
                h['conn'].close()
            del hist[:]
            # (the first DB stays open: closing it would close the storage that now serves as the base)
            changes = FSM.FileStorage(os.path.join(d, 'Changes.fs')) if random.Random(s + 6).random() < 0.5 else None
            db = ZODB.DB(ZODB.DemoStorage.DemoStorage(base=st, changes=changes))
            kind = 'demo-over-%s-with-history' % kind
            trace.append('(demo storage pushed over the history so far)')
            sh.count('histories_continued_in_a_demo_storage_over_them')
        graphgen.build(db, rnd, 1, can_undo=(kind == 'file'), trace=trace)
        record()
        last = db.lastTransaction()
        # open historical connections at random bounds
        for _ in range(rnd.choice([0, 1, 1, 2])):
            j = rnd.randrange(len(snaps))
            tid = snaps[j][0]
            form = rnd.choice(['at-tid', 'before-tid', 'before-tid+1', 'at-datetime+0.5', 'before-datetime+0.5', 'at-datetime+0.5', 'before-datetime+0.5'])   # exact instants only as raw tids: datetime has microsecond precision
            kw, bound = None, None
            if form == 'at-tid':
                kw, bound = {'at': tid}, p64(u64(tid) + 1)
            elif form == 'before-tid':
                kw, bound = {'before': tid}, tid
            elif form == 'before-tid+1':
                kw, bound = {'before': p64(u64(tid) + 1)}, p64(u64(tid) + 1)
            elif form.startswith('at-datetime'):
                plus = 0.5 if form.endswith('0.5') else 0.0
                dt = to_dt(tid, plus)
                nxt = snaps[j + 1][0] if j + 1 < len(snaps) else None
                if plus and nxt is not None and TimeStamp(nxt).timeTime() - TimeStamp(tid).timeTime() < 0.9:
                    continue
                if plus and nxt is None:
                    continue               # would lie in the future
                dt = aware(dt, rnd)
                kw = {'at': dt}
                # at=datetime: state as of that instant (inclusive)
                from ZODB.DB import getTID
                bound = getTID(dt, None)
            else:
                plus = 0.5 if form.endswith('0.5') else 0.0
                dt = to_dt(tid, plus)
                nxt = snaps[j + 1][0] if j + 1 < len(snaps) else None
                if plus and (nxt is None or TimeStamp(nxt).timeTime() - TimeStamp(tid).timeTime() < 0.9):
                    continue
                dt = aware(dt, rnd)
                kw = {'before': dt}
                from ZODB.DB import getTID
                bound = getTID(None, dt)
            if packed_T is not None and bound <= packed_T:
                continue
            tm = transaction.TransactionManager()
            try:
                c = db.open(tm, **kw)
            except ValueError as e:
                sh.violation('c15:%s:past-bound-refused' % kind, {'form': form, 'bound': bound, 'last': last, 'exc': str(e)}, case)
                return None
            sh.count('historical_opens')
            # independent expectation for datetime forms: snapshot of the last tid below/at the instant
            if 'datetime' in form:
                inst = TimeStamp(tid).timeTime() + (0.5 if form.endswith('0.5') else 0.0)
                if form.startswith('at'):
                    exp_j = max(k for k, (t, sn) in enumerate(snaps) if TimeStamp(t).timeTime() <= inst + 1e-7)
                else:
                    below = [k for k, (t, sn) in enumerate(snaps) if TimeStamp(t).timeTime() < inst - 1e-7]
                    exp_j = max(below) if below else None
                exp_model = snaps[exp_j][1] if exp_j is not None else None
                if exp_model != expected(bound):
                    # the datetime->tid conversion put the bound on the wrong side of a transaction
                    sh.violation('c15:%s:datetime-bound-selects-wrong-transaction' % kind, {'form': form, 'tid': tid, 'bound': bound, 'trace': trace}, case)
                    return None
            h = {'conn': c, 'tm': tm, 'bound': bound, 'label': '%s@%d%s' % (form, j, ('(tz %s)' % kw[list(kw)[0]].utcoffset()) if 'datetime' in form and kw[list(kw)[0]].tzinfo else '')}
            hist.append(h)
            if not check(h, False):
                return None
        # re-read every open historical connection after this commit
        for h in list(hist):
            if not check(h, True):
                return None
            r = rnd.random()
            if r < 0.15:
                # try to write through it
                if expected(h['bound']) is None or (packed_T is not None and h['bound'] <= packed_T):
                    continue
                h['tm'].begin()
                root = h['conn'].root()
                before_last = db.lastTransaction()
                try:
                    root['hacked'] = 1
                    h['tm'].commit()
                    sh.violation('c15:%s:commit-through-historical-connection-accepted' % kind, {'label': h['label'], 'trace': trace}, case)
                    return None
                except (ReadOnlyError, ReadOnlyHistoryError):
                    h['tm'].abort()
                    sh.count('write_attempts_refused')
                if db.lastTransaction() != before_last:
                    sh.violation('c15:%s:refused-historical-commit-stored-something' % kind, {'label': h['label']}, case)
                    return None
            elif r < 0.35:
                # back to the pool and out again (same bound)
                h['conn'].close()
                h['conn'] = db.open(h['tm'], before=h['bound'])
                if not check(h, True):
                    return None
        # future bounds
        if rnd.random() < 0.4:
            last = db.lastTransaction()
            for kw in ({'at': p64(u64(last) + 1)}, {'before': p64(u64(last) + 2)}, {'at': to_dt(last, 5.0)}):
                try:
                    c = db.open(transaction.TransactionManager(), **kw)
                    c.close()
                    sh.violation('c15:%s:future-bound-accepted' % kind, {'kw': repr(kw), 'last': last}, case)
                    return None
                except ValueError:
                    sh.count('future_bounds_refused')
            for kw in ({'at': last}, {'before': p64(u64(last) + 1)}):
                try:
                    c = db.open(transaction.TransactionManager(), **kw)
                    c.close()
                except ValueError:
                    sh.violation('c15:%s:newest-transaction-bound-refused' % kind, {'kw': repr(kw), 'last': last}, case)
                    return None
        # pack now and then
        if not kind.startswith('demo') and rnd.random() < 0.12 and len(snaps) > 2:
            T = rnd.choice([t for (t, sn) in snaps[1:]])
            try:
                db.pack(TimeStamp(T).timeTime() + 0.0005)
                packed_T = max(packed_T or T, T)
                pack_Ts.append(T)
                trace.append('pack')
            except Exception as e:
                sh.note('pack_exceptions', type(e).__name__)
    for h in hist:
        h['conn'].close()
    db.close()
    sh.note('storage_kinds', kind)
    return (sorted(nontrivial), {'seed': s, 'kind': kind, 'trace': trace, 'historical': [h['label'] for h in hist][:8]}, len(hist))


def multidb_case(sh, s, d, case):
    """two databases, a cross-database reference from the first into the second; a historical connection on the first reaches
    into the second (get_connection / following the reference) and must see it at the same past point"""
    import ZODB
    import ZODB.MappingStorage
    import transaction
    from zv import recfs, clock
    from zv.objs import Cell
    from ZODB.POSException import POSKeyError
    from ZODB.utils import p64, u64
    rnd = random.Random(s)
    FSM = recfs.install()
    recfs.LOG.enabled = False
    clock.install(clock.FakeClock())
    kinds = rnd.choice([('file', 'file'), ('mapping', 'mapping'), ('file', 'mapping'), ('mapping', 'file')])

    def mk(kind, name):
        return FSM.FileStorage(os.path.join(d, name + '.fs')) if kind == 'file' else ZODB.MappingStorage.MappingStorage()
    dbs = {}
    db1 = ZODB.DB(mk(kinds[0], 'one'), databases=dbs, database_name='one')
    db2 = ZODB.DB(mk(kinds[1], 'two'), databases=dbs, database_name='two')
    tm = transaction.TransactionManager()
    c1 = db1.open(tm)
    tm.begin()
    c2 = c1.get_connection('two')
    a, m = Cell('a0'), Cell('m0')
    c2.add(m)
    c2.root()['m'] = m
    c1.root()['a'] = a
    c1.root()['mount'] = m
    tm.commit()
    st1, st2 = [(a._p_serial, 'a0')], [(m._p_serial, 'm0')]
    hist = []
    label = '%s+%s' % kinds

    def exp(states, bound):
        c = [v for (t, v) in states if t < bound]
        return c[-1] if c else None

    def check(h, again):
        h['tm'].begin()
        bound = h['bound']
        c = h['conn']
        if rnd.random() < 0.3:
            c.cacheMinimize()
        sh.count('multi_database_historical_reads')
        got1 = c.root()['a'].payload
        if got1 != exp(st1, bound):
            sh.violation('c15:multidb:historical-connection-reads-another-state', {'db': 'one', 'label': h['label'], 'got': got1, 'want': exp(st1, bound), 'reread': again}, case)
            return False
        want2 = exp(st2, bound)
        if want2 is not None and bound <= p64(u64(db2.lastTransaction()) + 1):
            try:
                got2 = (c.root()['mount'].payload, c.get_connection('two').root()['m'].payload)
            except Exception as e:
                sh.violation('c15:multidb:reaching-the-other-database-raises-%s' % type(e).__name__, {'label': h['label'], 'exc': repr(e)[:160]}, case)
                return False
            sh.count('multi_database_reads_of_the_other_database')
            if got2 != (want2, want2):
                sh.violation('c15:multidb:other-database-seen-at-another-point', {'label': h['label'], 'got': got2, 'want': want2, 'reread': again,
                                                                                   'bound_is_a_tid_of_the_other_database': bound in [t for t, _ in st2]}, case)
                return False
        h['tm'].abort()
        return True
    n = 0
    for i in range(rnd.choice([4, 7, 10])):
        tm.begin()
        which = rnd.choice(['one', 'two', 'both', 'two'])
        if which in ('one', 'both'):
            a.payload = 'a%d' % (i + 1)
        if which in ('two', 'both'):
            m.payload = 'm%d' % (i + 1)
        tm.commit()
        if which in ('one', 'both'):
            st1.append((a._p_serial, a.payload))
        if which in ('two', 'both'):
            st2.append((m._p_serial, m.payload))
        for _ in range(rnd.choice([1, 2])):
            P = rnd.choice([t for t, _ in st1 + st2])
            form = rnd.choice(['at', 'before', 'before', 'before+1'])
            kw, bound = {'at': ({'at': P}, p64(u64(P) + 1)), 'before': ({'before': P}, P), 'before+1': ({'before': p64(u64(P) + 1)}, p64(u64(P) + 1))}[form]
            if bound <= st1[0][0] or bound > p64(u64(db1.lastTransaction()) + 1):
                continue
            if bound > p64(u64(db2.lastTransaction()) + 1):
                # loading the first database's root opens the second one at the same point at once, and DB.open refuses points
                # after *that* database's last transaction ("in the future"): multi-database use is outside the statement's
                # quantifier, so such points get no verdict here
                sh.count('multi_database_points_after_the_other_databases_last_transaction')
                continue
            tmh = transaction.TransactionManager()
            h = {'conn': db1.open(tmh, **kw), 'tm': tmh, 'bound': bound, 'label': '%s %s=%s' % (label, form, 'tid-of-%s' % ('two' if P in [t for t, _ in st2] else 'one'))}
            hist.append(h)
            n += 1
            sh.count('historical_opens')
            if not check(h, False):
                return None
        for h in hist:
            if not check(h, True):
                return None
    for h in hist:
        h['conn'].close()
    c1.close()
    db1.close()
    db2.close()
    sh.note('storage_kinds', 'multidb:' + label)
    return ([digest(s, 'multidb')] if n else [], {'seed': s, 'kind': 'multidb:' + label, 'historical': [h['label'] for h in hist][:6]}, n)


def run_shard(params):
    logging.disable(logging.CRITICAL)
    sh = Shard(params)
    for i in case_indices(params):
        if not sh.time_left():
            break
        s = case_seed(params, i)
        case = {'seed': s}
        d = sh.fresh_dir('c15')
        if i % 6 == 5:
            case['multidb'] = True
            r = guarded(sh, 'c15', case, lambda: multidb_case(sh, s, d, case))
        else:
            r = guarded(sh, 'c15', case, lambda: run_case(sh, s, d, case))
        if r:
            for dg in r[0]:
                sh.nontrivial.add(dg)
            sh.case(None, r[1], n=max(1, r[2]))     # evaluations = historical bounds opened and followed
        else:
            sh.case(None)
    return sh.result()


def replay(case, scratch):
    logging.disable(logging.CRITICAL)
    sh = Shard({'scratch': scratch})
    f = multidb_case if case.get('multidb') else run_case
    guarded(sh, 'c15', case, lambda: f(sh, case['seed'], sh.fresh_dir('c15'), case))
    return sh.violations
