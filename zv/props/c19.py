"""C19  fsIndex behaves as an ordered map (sorted-dict reference model) and survives save/load."""
import bisect
import os
import pickle
import random
import struct

from zv.harness import Shard, split, case_indices, case_seed, digest, guarded

ID = 'C19'
LEVEL = 'exploration'
RULE = ('random op sequences (insert/update/delete/clear/bulk update, queries, save+load, pickle round trip, copies made by the constructor or update() from another fsIndex and then changed independently) over keys '
        'drawn from few 6-byte prefixes x few 2-byte suffixes incl. 00.. and ff..; every return value / exception class '
        'is compared with a sorted-dict model. A sequence is non-trivial (and counted once per distinct op-list digest) '
        'if it issued a bounded minKey/maxKey query whose 6-byte prefix was absent from a non-empty index and a save/load.')
ASSUMPTIONS = ['BTrees (fsBucket/OOBTree) and zodbpickle are trusted', 'model: python dict + sorted()']
REQUIRED_COUNTERS = ('queries_compared', 'absent_prefix_queries', 'save_load_roundtrips')


def shards(tier, seed):
    return split(tier, seed, 200000, 4000000, 25, 600)


def p48(n):
    return struct.pack('>Q', n)[2:]


PREFIXES = [p48(0), p48(1), p48(2), p48(5), p48(255), p48(256), p48(0x7fffffffffff), p48(0xfffffffffffe), p48(0xffffffffffff),
            b'abcdef', b'\x00\x00\x00\x00\x01\x00']
SUFFIXES = [b'\x00\x00', b'\x00\x01', b'\x00\xff', b'\x01\x00', b'\x7f\xff', b'\x80\x00', b'\xff\xfe', b'\xff\xff', b'zz']
VALUES = [0, 1, 4, 255, 256, 2 ** 32 - 1, 2 ** 32, 2 ** 47, 2 ** 48 - 1]


class Model:
    def __init__(self):
        self.d = {}

    def keys(self):
        return sorted(self.d)

    def minKey(self, key=None):
        ks = self.keys()
        if not ks:
            raise ValueError
        if key is None:
            return ks[0]
        i = bisect.bisect_left(ks, key)
        if i == len(ks):
            raise ValueError
        return ks[i]

    def maxKey(self, key=None):
        ks = self.keys()
        if not ks:
            raise ValueError
        if key is None:
            return ks[-1]
        i = bisect.bisect_right(ks, key)
        if i == 0:
            raise ValueError
        return ks[i - 1]


def outcome(f):
    try:
        return ('ok', f())
    except (KeyError, ValueError, IndexError, AssertionError, struct.error, OverflowError, TypeError) as e:
        # struct.error etc. are reported under their own class name: the model only ever raises KeyError/ValueError
        return ('exc', type(e).__name__)


def gen_ops(rnd, n):
    npre = rnd.choice([1, 2, 3, 5])
    pres = rnd.sample(PREFIXES, npre)
    sufs = rnd.sample(SUFFIXES, rnd.choice([2, 3, 5]))
    allpres = PREFIXES
    ops = []
    for _ in range(n):
        r = rnd.random()
        k = rnd.choice(pres) + rnd.choice(sufs)
        q = rnd.choice(allpres) + rnd.choice(SUFFIXES)
        v = rnd.choice(VALUES) if rnd.random() < 0.5 else rnd.randrange(2 ** 48)
        if r < 0.30:
            ops.append(('set' if rnd.random() < 0.8 else 'sibset', k, v))
        elif r < 0.40:
            ops.append(('del' if rnd.random() < 0.8 else 'sibdel', k if rnd.random() < 0.7 else q))
        elif r < 0.42:
            ops.append(('clear',))
        elif r < 0.46:
            ops.append(('update', [(rnd.choice(pres) + rnd.choice(sufs), rnd.randrange(2 ** 48)) for _ in range(rnd.randrange(4))]))
        elif r < 0.60:
            ops.append(('minKey', q))
        elif r < 0.74:
            ops.append(('maxKey', q))
        elif r < 0.78:
            ops.append(('minKey', None) if rnd.random() < .5 else ('maxKey', None))
        elif r < 0.84:
            ops.append(('get', q if rnd.random() < .5 else k))
        elif r < 0.88:
            ops.append(('views',))
        elif r < 0.93:
            ops.append(('saveload', rnd.choice(VALUES + [rnd.randrange(2 ** 48)])))
        elif r < 0.97:
            ops.append(('pickle', rnd.choice([0, 1, 2, 3])))
        elif r < 0.98:
            ops.append(('ctor',))
        else:
            # a second index made from this one (copy constructor, or update() into an index that already holds other keys);
            # afterwards both are changed independently ('sibset'/'sibdel' go to the copy) and neither may see the other's changes
            ops.append(('fork', rnd.choice(['ctor', 'update']),
                        [(rnd.choice(allpres) + rnd.choice(SUFFIXES), rnd.randrange(2 ** 48)) for _ in range(rnd.randrange(3))]))
    return ops


def run_case(sh, ops, tmpdir, case):
    from ZODB.fsIndex import fsIndex
    idx = fsIndex()
    m = Model()
    absent = saved = 0

    def cmp(i, name, real, exp):
        sh.count('queries_compared')
        if real != exp:
            kind = 'minmax-bounded' if name in ('minKey', 'maxKey') and ops[i][1] is not None else name
            sh.violation('fsindex:%s-differs-from-sorted-dict' % kind,
                         {'op_index': i, 'op': ops[i], 'real': real, 'model': exp, 'keys': m.keys()[:20]}, case)
            return False
        return True

    sibs = []            # [index, model dict] made from idx by 'fork'

    def check_all(i):
        for (sx, sm) in sibs + [(idx, m.d)]:
            sh.count('two_index_comparisons')
            if not cmp(i, 'items-of-an-index-sharing-history-with-a-copy', outcome(lambda: list(sx.items())), ('ok', sorted(sm.items()))):
                return False
            if sm and not cmp(i, 'minmax-of-an-index-sharing-history-with-a-copy', outcome(lambda: (sx.minKey(), sx.maxKey(), len(sx))),
                              ('ok', (min(sm), max(sm), len(sm)))):
                return False
        return True

    for i, op in enumerate(ops):
        k = op[0]
        if sibs and i and ops[i - 1][0] in ('set', 'del', 'clear', 'update', 'sibset', 'sibdel', 'fork'):
            if not check_all(i - 1):
                return absent, saved
        if k in ('sibset', 'sibdel'):
            if sibs:
                sx, sm = sibs[-1]
                if k == 'sibset':
                    sx[op[1]] = op[2]
                    sm[op[1]] = op[2]
                else:
                    def rd():
                        del sx[op[1]]
                    def md():
                        del sm[op[1]]
                    if not cmp(i, 'del', outcome(rd), outcome(md)):
                        return absent, saved
                continue
            k = k[3:]               # no copy yet: an ordinary set/del
        if k == 'fork':
            pre = dict(op[2])
            if op[1] == 'ctor':
                sx, sm = fsIndex(idx), dict(m.d)
            else:
                sx = fsIndex(pre)
                sx.update(idx)
                sm = dict(pre)
                sm.update(m.d)
            sibs = (sibs + [[sx, sm]])[-2:]
            sh.count('index_copies_made')
        elif k == 'set':
            idx[op[1]] = op[2]
            m.d[op[1]] = op[2]
        elif k == 'del':
            def rd():
                del idx[op[1]]
            def md():
                del m.d[op[1]]
            if not cmp(i, 'del', outcome(rd), outcome(md)):
                return absent, saved
        elif k == 'clear':
            idx.clear()
            m.d.clear()
        elif k == 'update':
            idx.update(dict(op[1]))
            m.d.update(dict(op[1]))
        elif k in ('minKey', 'maxKey'):
            q = op[1]
            if q is not None and m.d and q[:6] not in {x[:6] for x in m.d}:
                absent += 1
                sh.count('absent_prefix_queries')
            real = outcome(lambda: getattr(idx, k)(q) if q is not None else getattr(idx, k)())
            exp = outcome(lambda: getattr(m, k)(q))
            if not cmp(i, k, real, exp):
                return absent, saved
        elif k == 'get':
            q = op[1]
            sentinel = 'dflt'
            ok = cmp(i, 'get', outcome(lambda: idx.get(q)), ('ok', m.d.get(q)))
            ok = ok and cmp(i, 'get-default', outcome(lambda: idx.get(q, sentinel)), ('ok', m.d.get(q, sentinel)))
            ok = ok and cmp(i, 'getitem', outcome(lambda: idx[q]), outcome(lambda: m.d[q]))
            ok = ok and cmp(i, 'contains', outcome(lambda: q in idx), ('ok', q in m.d))
            ok = ok and cmp(i, 'has_key', outcome(lambda: idx.has_key(q)), ('ok', q in m.d))
            if not ok:
                return absent, saved
        elif k == 'views':
            ks = m.keys()
            ok = cmp(i, 'len', outcome(lambda: len(idx)), ('ok', len(ks)))
            ok = ok and cmp(i, 'keys', outcome(lambda: list(idx.keys())), ('ok', ks))
            ok = ok and cmp(i, 'iter', outcome(lambda: list(iter(idx))), ('ok', ks))
            ok = ok and cmp(i, 'items', outcome(lambda: list(idx.items())), ('ok', [(x, m.d[x]) for x in ks]))
            ok = ok and cmp(i, 'iteritems', outcome(lambda: list(idx.iteritems())), ('ok', [(x, m.d[x]) for x in ks]))
            ok = ok and cmp(i, 'values', outcome(lambda: list(idx.values())), ('ok', [m.d[x] for x in ks]))
            if not ok:
                return absent, saved
        elif k == 'saveload':
            fn = os.path.join(tmpdir, 'idx')
            idx.save(op[1], fn)
            info = fsIndex.load(fn)
            sh.count('save_load_roundtrips')
            saved += 1
            ks = m.keys()
            ok = cmp(i, 'load-pos', ('ok', info.get('pos') if isinstance(info, dict) else info), ('ok', op[1]))
            ok = ok and cmp(i, 'load-items', outcome(lambda: list(info['index'].items())), ('ok', [(x, m.d[x]) for x in ks]))
            if not ok:
                return absent, saved
            idx = info['index']       # continue on the loaded copy
        elif k == 'pickle':
            idx2 = pickle.loads(pickle.dumps(idx, op[1]))
            ks = m.keys()
            if not cmp(i, 'pickle-items', outcome(lambda: list(idx2.items())), ('ok', [(x, m.d[x]) for x in ks])):
                return absent, saved
            idx = idx2
        elif k == 'ctor':
            idx = fsIndex(dict(m.d))
            if not cmp(i, 'ctor-items', outcome(lambda: list(idx.items())), ('ok', [(x, m.d[x]) for x in m.keys()])):
                return absent, saved
    if sibs:
        check_all(len(ops) - 1)
    return absent, saved


def many_groups_case(sh, s, tmpdir, case):
    """an index with hundreds of 6-byte prefix groups (widely spaced ids, or a database beyond 2^24 objects): queries across
    group boundaries, save/load, pickle, deletions of whole groups, save/load again - all against the sorted dict"""
    import pickle
    from ZODB.fsIndex import fsIndex
    from ZODB.utils import p64
    rnd = random.Random(s)
    G = rnd.choice([255, 256, 257, 300, 520, 700])
    step = rnd.choice([1, 3, 257]) << 16
    base = rnd.choice([0, 5 << 16, 0xffff0000])
    m = {}
    idx = fsIndex()
    for g in range(G):
        for low in rnd.sample([0, 1, 2, 0x7fff, 0xfffe, 0xffff], rnd.choice([1, 1, 2, 3])):
            k = p64(base + g * step + low)
            v = rnd.randrange(2 ** 48)
            m[k] = v
            idx[k] = v
    fn = os.path.join(tmpdir, 'many.index')

    def check(tag, ix):
        ks = sorted(m)
        got = outcome(lambda: list(ix.items()))
        sh.count('many_group_indexes_compared')
        if got != ('ok', [(k, m[k]) for k in ks]) or len(ix) != len(m):
            n_got = len(got[1]) if got[0] == 'ok' else got
            sh.violation('fsindex:many-prefix-groups:%s-items-differ-from-sorted-dict' % tag, {'groups': G, 'keys': len(m), 'got': n_got}, case)
            return False
        for _ in range(60 if ks else 0):
            k = rnd.choice(ks)
            q = p64(max(0, min(2 ** 64 - 1, int.from_bytes(k, 'big') + rnd.choice([-1, 0, 1, -65536, 65536, step]))))
            i = bisect.bisect_left(ks, q)
            j = bisect.bisect_right(ks, q)
            exp_min = ('ok', ks[i]) if i < len(ks) else ('exc', 'ValueError')
            exp_max = ('ok', ks[j - 1]) if j else ('exc', 'ValueError')
            sh.count('queries_compared', 2)
            if outcome(lambda: ix.minKey(q)) != exp_min or outcome(lambda: ix.maxKey(q)) != exp_max or ix.get(q) != m.get(q):
                sh.violation('fsindex:many-prefix-groups:%s-query-differs-from-sorted-dict' % tag, {'groups': G, 'q': q}, case)
                return False
        return True
    if not check('fresh', idx):
        return
    idx.save(12345, fn)
    info = fsIndex.load(fn)
    sh.count('save_load_roundtrips')
    if info['pos'] != 12345 or not check('loaded', info['index']):
        return
    idx = info['index']
    if not check('pickled', pickle.loads(pickle.dumps(idx, rnd.choice([1, 2, 3])))):
        return
    for k in [k for k in sorted(m) if (int.from_bytes(k, 'big') >> 16) % 3 == 0]:
        del m[k]
        del idx[k]
    idx.save(777, fn)
    info = fsIndex.load(fn)
    sh.count('save_load_roundtrips')
    check('loaded-after-deleting-groups', info['index'])


def run_shard(params):
    sh = Shard(params)
    tmp = sh.fresh_dir('idx')
    for j in range(3):
        cm = {'seed': params['seed'] * 131 + params['shard'] * 7 + j, 'many_groups': True}
        guarded(sh, 'fsindex', cm, lambda: many_groups_case(sh, cm['seed'], tmp, cm))
    for i in case_indices(params):
        if not sh.time_left():
            break
        s = case_seed(params, i)
        rnd = random.Random(s)
        ops = gen_ops(rnd, rnd.choice([8, 20, 40, 80]))
        case = {'seed': s}
        r = guarded(sh, 'fsindex', case, lambda: run_case(sh, ops, tmp, case))
        absent, saved = r if r else (0, 0)
        sh.case(digest(ops) if absent and saved else None, sample={'seed': s, 'ops': ops[:12]})
    return sh.result()


def replay(case, scratch):
    sh = Shard({'scratch': scratch})
    if case.get('many_groups'):
        many_groups_case(sh, case['seed'], sh.fresh_dir('idx'), case)
        return sh.violations
    rnd = random.Random(case['seed'])
    ops = gen_ops(rnd, rnd.choice([8, 20, 40, 80]))
    run_case(sh, ops, sh.fresh_dir('idx'), case)
    return sh.violations

ENGINE = 'runner'
TECHNIQUE = 'differential runtime monitoring: every fsIndex operation result vs a sorted-dict reference model over generated op sequences'
LEVEL_TEXT = ('Every return value and exception class of the real fsIndex is compared online with a sorted-dict model over '
              'thousands of generated operation sequences concentrated on the edge cases named by the property (absent prefixes, '
              '00../ff.. prefixes, positions up to 2^48-1, save/load and pickle round trips). Held on the sequences run; not a proof.')
LEVEL_NOTE = 'Trusts BTrees/zodbpickle and the 30-line model; keys are 8-byte strings, positions < 2^48 as the property states.'
