"""C11  In-memory objects follow the outcome of their transaction."""
import logging
import os
import random

from zv.harness import Shard, split, case_indices, case_seed, digest, guarded

ID = 'C11'
LEVEL = 'exploration'
ENGINE = 'Shadow'
TECHNIQUE = ('runtime monitoring with a shadow model of the connection: ownership flags (_p_oid/_p_jar), cleanliness, serials and '
             'attribute state of every object compared with the model after every commit, abort and failed commit; set of records '
             'written by each commit compared with changed U newly reachable U explicitly added; second connection sees only committed data')
RULE = ('random programs over persistent objects (root mapping + Cell graph): modify, link fresh/known/disowned objects (implicit add), '
        'explicit add(), unlink, savepoint, rollback, commit, abort, failed commits (real conflict with a second connection; foreign resource manager failing '
        'in tpc_begin/commit/tpc_vote sorted before and after the connection; injected raw write failure in the storage vote), close() '
        'inside a transaction (must raise), close/reopen outside, re-adding disowned objects, on FileStorage, MappingStorage and '
        'DemoStorage. After every boundary the shadow model is compared with all real objects and with a second connection. '
        'Non-trivial = distinct programs with >= 1 failed commit after which a disowned object was linked or added again and committed.')
LEVEL_TEXT = ('Held on generated programs: after each of their boundaries every object\'s flags and state and the records written were '
              'compared with the shadow model. Not a proof.')
LEVEL_NOTE = 'Trusts persistent (C extension) and transaction. Objects that are ghosts after a commit are "clean" and their serial is checked after activation.'
ASSUMPTIONS = ['single-threaded programs; thread schedules are covered by C02/C03']
REQUIRED_COUNTERS = ('shadow_comparisons', 'commits', 'aborts', 'failed_commits_conflict', 'failed_commits_foreign_rm', 'commit_record_sets_checked',
                     'close_while_joined_refused', 'relinked_disowned_objects')

OPS = ['modify'] * 5 + ['link'] * 6 + ['unlink'] * 2 + ['add'] * 2 + ['commit'] * 4 + ['abort'] * 2 + ['conflict', 'foreign', 'foreign', 'io-fault',
                                                                                                  'close-joined', 'reopen', 'long-meta', 'savepoint', 'savepoint', 'rollback', 'refused-write', 'serialize-failure', 'cache-pressure']


def shards(tier, seed):
    return split(tier, seed, 12000, 400000, 40, 900)


def mkstorage(kind, d, FSM):
    import ZODB.MappingStorage
    import ZODB.DemoStorage
    if kind == 'file':
        return FSM.FileStorage(os.path.join(d, 'Data.fs'))
    if kind == 'mapping':
        return ZODB.MappingStorage.MappingStorage()
    return ZODB.DemoStorage.DemoStorage()


def io_fault_commit(sh, sw, recfs):
    """one raw write to the data file fails during the storage vote"""
    from zv.shadow import Diverged
    LOG = recfs.LOG
    if not (sw.work or sw.added):
        sw.op_link()
    fired = [0]

    def fault(op):
        if op[0] == 'write' and op[1].endswith('Data.fs') and not fired[0]:
            fired[0] = 1
            return ('raise', 28)
        return None
    before = sw.st.lastTransaction()
    LOG.enabled = True
    LOG.fault = fault
    try:
        sw.tm.commit()
        LOG.fault = None
        LOG.enabled = False
        if fired[0]:
            raise Diverged('commit-succeeded-although-a-data-write-failed', {})
        # nothing reached the raw layer? then it simply committed
        sw._flatten_commit()
        sw.trace.append('commit')
        return
    except OSError:
        pass
    finally:
        LOG.fault = None
        LOG.enabled = False
    sw.tm.abort()
    if sw.st.lastTransaction() != before:
        raise Diverged('failed-commit-stored-a-transaction', {'phase': 'vote-io'})
    sw._abort_model()
    sw.trace.append('io-fault')
    sw.count('failed_commits_io_fault')
    sw.compare('after-io-fault')
    sw.compare_committed('after-io-fault')


def run_case(sh, s, d, case):
    import ZODB
    import ZODB.DemoStorage
    from zv import recfs, clock
    from zv.shadow import Shadow, Diverged
    rnd = random.Random(s)
    FSM = recfs.install()
    recfs.LOG.reset()
    recfs.LOG.enabled = False
    clock.install(clock.FakeClock())
    ZODB.DemoStorage.random = random.Random(s)
    kind = rnd.choice(['file', 'file', 'mapping', 'demo'])
    st = mkstorage(kind, d, FSM)
    # a small object cache in a third of the runs: savepoints then ghostify what they have just stored
    db = ZODB.DB(st, cache_size=(2 if s % 3 == 0 else 400))
    trace = []
    sw = Shadow(db, rnd, st, trace)
    failed = False
    nt = False
    try:
        for i in range(rnd.choice([10, 20, 40])):
            k = rnd.choice(OPS)
            relinked = sw.counts.get('relinked_disowned_objects', 0)
            if k == 'modify':
                sw.op_modify()
            elif k == 'link':
                sw.op_link()
            elif k == 'unlink':
                sw.op_unlink()
            elif k == 'add':
                sw.op_add()
            elif k == 'commit':
                sw.op_commit()
                if failed and sw.counts.get('relinked_disowned_objects', 0) > 0:
                    nt = True
            elif k == 'abort':
                sw.op_abort()
                failed = True
            elif k == 'conflict':
                sw.op_conflict()
                failed = True
            elif k == 'foreign':
                sw.op_foreign_failure()
                failed = True
            elif k == 'io-fault' and kind == 'file':
                io_fault_commit(sh, sw, recfs)
                failed = True
            elif k == 'long-meta':
                sw.op_storage_begin_failure(limited=(kind == 'file'))
                failed = failed or kind == 'file'
            elif k == 'savepoint':
                sw.op_savepoint()
            elif k == 'rollback':
                sw.op_rollback()
            elif k == 'close-joined':
                sw.op_close_while_joined()
            elif k == 'reopen':
                sw.op_reopen()
            elif k == 'cache-pressure':
                sw.op_cache_pressure()
            elif k == 'refused-write':
                sw.op_refused_write()
            elif k == 'serialize-failure':
                sw.op_serialize_failure()
                failed = True
        sw.op_commit()
    except Diverged as e:
        sh.violation('c11:%s:%s' % (kind, e.mechanism), dict(e.detail, trace=trace[-25:]), case)
        return None
    finally:
        for (m, det) in sw.deviations[:1]:
            sh.violation('c11:%s:%s' % (kind, m), dict(det, trace=trace[-25:]), case)
        for n, v in sw.counts.items():
            sh.count(n, v)
        try:
            sw.finish()
            db.close()
        except Exception:
            pass
    sh.note('storage_kinds', kind)
    return (digest(kind, trace) if nt else None, {'seed': s, 'kind': kind, 'trace': trace[:30]})


def crafted_implicit_new_conflict(sh, d, case):
    """deterministic regression scenario (known finding until fix cd1a7ad): an implicitly new object found while serialising a
    referrer whose store then raises ConflictError must be disowned by the abort, and a retry with the same object must store it"""
    import ZODB
    import ZODB.MappingStorage
    import transaction
    from zv import objs
    from ZODB.POSException import ConflictError
    from zv import recfs
    kind = case.get('kind', 'mapping')
    db = ZODB.DB(mkstorage(kind, d, recfs.install()))
    with db.transaction() as c:
        c.root()['a'] = objs.Cell('a0')
    tm1, tm2 = transaction.TransactionManager(), transaction.TransactionManager()
    c1, c2 = db.open(tm1), db.open(tm2)
    tm1.begin()
    tm2.begin()
    a1 = c1.root()['a']
    n = objs.Cell('new object')
    a1.payload = 'mine'
    a1.refs = {'n': n}
    c2.root()['a'].payload = 'theirs'
    tm2.commit()
    try:
        tm1.commit()
        sh.violation('c11:%s:conflicting-commit-accepted' % kind, {'crafted': True}, case)
    except ConflictError:
        tm1.abort()
    if n._p_oid is not None or n._p_jar is not None:
        sh.violation('c11:%s:implicitly-new-object-keeps-oid-and-jar-after-store-phase-failure' % kind,
                     {'crafted': True, 'oid': n._p_oid, 'jar': n._p_jar is not None}, case)
    # the usual retry loop: the same new object is linked again and committed; everybody must be able to load it
    tm1.begin()
    a1 = c1.root()['a']
    a1.payload = 'mine again'
    a1.refs = {'n': n}
    tm1.commit()
    tm2.begin()
    try:
        got = c2.root()['a'].refs['n'].payload
    except Exception as e:
        got = type(e).__name__
    if got != 'new object':
        sh.violation('c11:%s:retry-with-the-same-new-object-commits-a-dangling-reference' % kind, {'crafted': True, 'read': got}, case)
    sh.count('shadow_comparisons')
    sh.count('crafted_retry_scenarios')
    c1.close()
    c2.close()
    db.close()


def run_shard(params):
    logging.disable(logging.CRITICAL)
    sh = Shard(params)
    if params.get('shard', 0) < 3:
        # fixed regression scenario (was a known finding until fix cd1a7ad): one storage kind per shard
        ccase = {'crafted': 'implicit-new-conflict', 'kind': ('file', 'mapping', 'demo')[params.get('shard', 0)]}
        guarded(sh, 'c11', ccase, lambda: crafted_implicit_new_conflict(sh, sh.fresh_dir('c11'), ccase))
    for i in case_indices(params):
        if not sh.time_left():
            break
        s = case_seed(params, i)
        case = {'seed': s}
        d = sh.fresh_dir('c11')
        r = guarded(sh, 'c11', case, lambda: run_case(sh, s, d, case))
        if r:
            sh.case(r[0], r[1])
        else:
            sh.case(None)
    return sh.result()


def replay(case, scratch):
    logging.disable(logging.CRITICAL)
    sh = Shard({'scratch': scratch})
    if case.get('crafted') == 'implicit-new-conflict':
        guarded(sh, 'c11', case, lambda: crafted_implicit_new_conflict(sh, sh.fresh_dir('c11'), case))
        return sh.violations
    guarded(sh, 'c11', case, lambda: run_case(sh, case['seed'], sh.fresh_dir('c11'), case))
    return sh.violations
