"""C12  Savepoint rollback restores the savepoint state exactly, any number of times."""
import logging
import os
import random

from zv.harness import Shard, split, case_indices, case_seed, digest, guarded

ID = 'C12'
LEVEL = 'exploration'
ENGINE = 'Shadow'
TECHNIQUE = ('runtime monitoring with a pure-Python savepoint model (stack of deep snapshots of object states and ownership) compared with '
             'the real objects after every savepoint, rollback, commit and abort; a second connection must see only committed data; '
             'temporary savepoint stores are tracked and must be closed after the transaction')
RULE = ('random programs mixing modify / link fresh, known and disowned objects / explicit add / unlink / savepoint / rollback to a '
        'random valid savepoint (repeatedly to the same one, to older ones, after newer ones were taken) / commit / abort / failed commit (conflict, failing foreign participant), on '
        'FileStorage and MappingStorage. After every savepoint, rollback, commit and abort: every object\'s ownership (_p_oid/_p_jar), '
        'visible state and (for disowned objects) retained Python state == model; savepoints taken after the rollback target must '
        'refuse; records of the final commit == model; a second connection reads the committed state only; every TmpStore created '
        'is closed once the transaction ended. Non-trivial = distinct programs with a rollback performed after further savepoints '
        'and a second rollback to the same savepoint with object creations in between.')
LEVEL_TEXT = ('Held on generated programs: after every boundary all objects were compared with the savepoint model. Not a proof.')
LEVEL_NOTE = 'Blob writes combined with savepoints are exercised under C13. Trusts persistent and transaction.'
ASSUMPTIONS = ['single connection per program plus one observer connection']
REQUIRED_COUNTERS = ('shadow_comparisons', 'savepoints', 'rollbacks', 'rollbacks_past_later_savepoints', 'repeated_rollbacks_to_same_savepoint',
                     'tmpstores_checked_closed', 'second_connection_comparisons')

OPS = ['modify'] * 5 + ['link'] * 6 + ['unlink'] * 2 + ['add'] * 2 + ['savepoint'] * 5 + ['rollback'] * 5 + ['commit'] * 2 + ['abort', 'conflict', 'foreign', 'cache-pressure', 'cache-pressure']


def shards(tier, seed):
    return split(tier, seed, 12000, 400000, 40, 900)


def run_case(sh, s, d, case):
    import ZODB
    import ZODB.MappingStorage
    import ZODB.Connection as CN
    from zv import recfs, clock
    from zv.shadow import Shadow, Diverged
    rnd = random.Random(s)
    FSM = recfs.install()
    recfs.LOG.reset()
    recfs.LOG.enabled = False
    clock.install(clock.FakeClock())
    kind = rnd.choice(['file', 'mapping'])
    st = FSM.FileStorage(os.path.join(d, 'Data.fs')) if kind == 'file' else ZODB.MappingStorage.MappingStorage()
    # a small object cache in a third of the runs: savepoints then ghostify what they have just stored
    db = ZODB.DB(st, cache_size=(2 if s % 3 == 0 else 400))
    trace = []
    sw = Shadow(db, rnd, st, trace)
    tmpstores = []
    orig_init = CN.TmpStore.__init__

    def init(self, storage):
        orig_init(self, storage)
        tmpstores.append(self)
    CN.TmpStore.__init__ = init
    last_rb = None
    created_since_rb = False
    nt = False
    try:
        for i in range(rnd.choice([12, 25, 50])):
            k = rnd.choice(OPS)
            if k == 'modify':
                sw.op_modify()
            elif k == 'link':
                n0 = sw.nk
                sw.op_link()
                created_since_rb = created_since_rb or sw.nk > n0
            elif k == 'unlink':
                sw.op_unlink()
            elif k == 'add':
                sw.op_add()
                created_since_rb = True
            elif k == 'savepoint':
                sw.op_savepoint()
            elif k == 'cache-pressure':
                sw.op_cache_pressure()
            elif k == 'rollback':
                before = len(trace)
                past = sw.counts.get('rollbacks_past_later_savepoints', 0)
                sw.op_rollback()
                if len(trace) > before:
                    tgt = trace[-1]
                    if tgt == last_rb:
                        sw.count('repeated_rollbacks_to_same_savepoint')
                        if created_since_rb and sw.counts.get('rollbacks_past_later_savepoints', 0):
                            nt = True
                    last_rb = tgt
                    created_since_rb = False
            elif k in ('commit', 'abort', 'conflict', 'foreign'):
                n_before = len(trace)
                {'commit': sw.op_commit, 'abort': sw.op_abort, 'conflict': sw.op_conflict, 'foreign': sw.op_foreign_failure}[k]()
                if len(trace) == n_before or not trace[-1].startswith(('commit', 'abort', 'conflict', 'foreign')):
                    continue          # the operation did not apply (nothing to conflict on): the transaction goes on
                last_rb = None
                for t in tmpstores:
                    sh.count('tmpstores_checked_closed')
                    if not t._file.closed:
                        raise Diverged('savepoint-store-left-open-after-transaction', {'after': k})
                    if t._blob_dir is not None:
                        raise Diverged('savepoint-blob-directory-left-behind', {'after': k})
                del tmpstores[:]
                if sw.conn._savepoint_storage is not None:
                    raise Diverged('connection-still-uses-savepoint-storage-after-transaction', {'after': k})
        sw.op_commit()
    except Diverged as e:
        sh.violation('c12:%s:%s' % (kind, e.mechanism), dict(e.detail, trace=trace[-30:]), case)
        return None
    finally:
        CN.TmpStore.__init__ = orig_init
        for n, v in sw.counts.items():
            sh.count(n, v)
        try:
            sw.finish()
            db.close()
        except Exception:
            pass
    sh.note('storage_kinds', kind)
    return (digest(kind, trace) if nt else None, {'seed': s, 'kind': kind, 'trace': trace[:40]})


def crafted_dropped_ghosts(sh, case):
    """fixed regression scenario (fix b9b2e75): new objects stored by savepoints, ghostified and - nobody but another new object
    referring to them - dropped from the cache; after a rollback past their savepoints the surviving Python objects must still
    show their state, transitively"""
    import gc
    import ZODB
    import ZODB.MappingStorage
    import transaction
    from zv.objs import Cell
    db = ZODB.DB(ZODB.MappingStorage.MappingStorage(), cache_size=1)
    tm = transaction.TransactionManager()
    c = db.open(tm)
    tm.begin()
    c.root()['keep'] = Cell('keep')
    s1 = tm.savepoint()
    z = Cell('z state')
    y = Cell('y state')
    y.refs['z'] = z
    c.root()['y'] = y
    tm.savepoint()
    x = Cell('x state')
    x.refs['y'] = y
    c.root()['x'] = x
    del c.root()['y']
    tm.savepoint()
    del y, z
    for _ in range(2):
        c.cacheMinimize()
        gc.collect()
    s1.rollback()
    try:
        got = (x.payload, x.refs['y'].payload, x.refs['y'].refs['z'].payload, x._p_jar, x.refs['y']._p_jar)
    except Exception as e:
        got = type(e).__name__
    sh.count('crafted_dropped_ghost_scenarios')
    if got != ('x state', 'y state', 'z state', None, None):
        sh.violation('c12:mapping:disowned-object-lost-its-state:reached-only-through-another-ghostified-new-object', {'got': repr(got)[:160]}, case)
    tm.abort()
    c.close()
    db.close()


def run_shard(params):
    logging.disable(logging.CRITICAL)
    sh = Shard(params)
    if params.get('shard', 0) == 0:
        guarded(sh, 'c12', {'crafted': 'dropped-ghosts'}, lambda: crafted_dropped_ghosts(sh, {'crafted': 'dropped-ghosts'}))
    for i in case_indices(params):
        if not sh.time_left():
            break
        s = case_seed(params, i)
        case = {'seed': s}
        d = sh.fresh_dir('c12')
        r = guarded(sh, 'c12', case, lambda: run_case(sh, s, d, case))
        if r:
            sh.case(r[0], r[1])
        else:
            sh.case(None)
    return sh.result()


def replay(case, scratch):
    logging.disable(logging.CRITICAL)
    sh = Shard({'scratch': scratch})
    if case.get('crafted') == 'dropped-ghosts':
        guarded(sh, 'c12', case, lambda: crafted_dropped_ghosts(sh, case))
        return sh.violations
    guarded(sh, 'c12', case, lambda: run_case(sh, case['seed'], sh.fresh_dir('c12'), case))
    return sh.violations
