"""C16  A demo storage never modifies its base and reads as changes-over-base."""
import logging
import os
import random

from zv.harness import Shard, split, case_indices, case_seed, digest, guarded

ID = 'C16'
LEVEL = 'exploration'
ENGINE = 'Spec+RecFS'
TECHNIQUE = ('differential runtime monitoring: query battery on the real DemoStorage vs the layered history model '
             '(base transactions followed by changes transactions); base observed before/after (observation, file bytes, '
             'raw-op monitor on base paths); stale-serial probes for conflict detection across layers')
RULE = ('base history (stores, multi, undo, delete where the kind supports it) then a history through a DemoStorage for each '
        'stacking: mapping/mapping(default), file/mapping, mapping/file, file/file, push (demo over demo), pop; operations on top: '
        'stores of base and new objects, multi, empty, aborts, undo (file changes), stale-serial stores and '
        'checkCurrentSerialInTransaction probes on objects whose current revision lives in the base or in the changes, pack. '
        'After the history: full battery(demo) == model(base)+model(changes); observation and bytes of the base unchanged; zero '
        'mutating raw ops on base files. Non-trivial = distinct histories that changed an object present in the base and read '
        'a snapshot between the base revision and the first change.')
LEVEL_TEXT = ('Held on generated layered histories over six stackings; every query answer of the demo storage is compared with the '
              'layered model and the base is compared with itself before/after. Not a proof.')
LEVEL_NOTE = ('new_oid is covered by C20 (hostile random source). Blob-capable stackings are covered by C13. Trusts the model.')
ASSUMPTIONS = ['changes tids are later than base tids (clock monotone in these histories)']
REQUIRED_COUNTERS = ('battery_queries', 'base_unchanged_checks', 'stale_serial_probes', 'base_objects_changed_through_demo')

STACKS = ['map/map', 'file/map', 'map/file', 'file/file', 'push', 'pop']


def shards(tier, seed):
    return split(tier, seed, 16000, 600000, 40, 900)


def fingerprint(d, prefix):
    import hashlib
    out = {}
    for f in sorted(os.listdir(d)):
        if f.startswith(prefix) and not f.endswith('.lock') and not f.endswith('.tmp'):
            with open(os.path.join(d, f), 'rb') as fh:
                out[f] = hashlib.sha1(fh.read()).hexdigest()
    return out


def run_case(sh, s, d, case):
    import ZODB.MappingStorage
    import ZODB.DemoStorage
    from zv import recfs, clock, objs
    from zv.driver import Driver, Mismatch
    from zv.spec import battery, Spec
    from zv.observe import observe, first_diff
    from ZODB.Connection import TransactionMetaData
    from ZODB.POSException import ConflictError, ReadConflictError, POSKeyError
    from ZODB.serialize import referencesf
    from ZODB.utils import z64, p64
    rnd = random.Random(s)
    FSM = recfs.install()
    LOG = recfs.LOG
    LOG.reset()
    LOG.enabled = False
    cmode = random.Random(s + 5).choice(['normal', 'normal', 'stall', 'back', 'mixed'])
    clock.install(clock.FakeClock(mode=cmode, rnd=random.Random(s + 6)))
    sh.note('clock_modes', cmode)
    ZODB.DemoStorage.random = random.Random(s + 1)
    stack = rnd.choice(STACKS)
    bkind, ckind = {'map/map': ('map', 'map'), 'file/map': ('file', 'map'), 'map/file': ('map', 'file'),
                    'file/file': ('file', 'file'), 'push': ('map', 'map'), 'pop': ('map', 'map')}[stack]
    bpath = os.path.join(d, 'Base.fs')
    base = FSM.FileStorage(bpath) if bkind == 'file' else ZODB.MappingStorage.MappingStorage()
    # --- base history
    bdr = Driver(base, rnd, kind='file' if bkind == 'file' else 'mapping')
    bdr.oids = bdr.oids[:5]
    bops = (['store'] * 4 + ['multi'] * 2 + ['undo', 'delete']) if bkind == 'file' else ['store'] * 4 + ['multi'] * 2
    for _ in range(rnd.randrange(1, 7)):
        bdr.step(bops)
    changes = FSM.FileStorage(os.path.join(d, 'Changes.fs')) if ckind == 'file' else None
    demo = ZODB.DemoStorage.DemoStorage(base=base, changes=changes)
    nbase = len(bdr.spec.txns)
    trace = ['base:' + x for x in bdr.trace]
    under = None
    if stack in ('push', 'pop'):
        # first layer of changes, then push a second demo on top
        dr0 = Driver(demo, rnd, kind='mapping', spec=bdr.spec.copy())
        dr0.oids = bdr.oids
        dr0.uid = 1000
        for _ in range(random.Random(s + 9).choice([0, 1, 2, 3])):          # (0: the layer pushed over has no changes of its own)
            dr0.step(['store', 'store', 'multi'])
        trace += ['mid:' + x for x in dr0.trace]
        under = (demo, dr0.spec.copy(), nbase)
        top = demo.push()
        spec = dr0.spec.copy()
        nlower = len(spec.txns)
        demo_top = top
    else:
        spec = bdr.spec.copy()
        nlower = nbase
        demo_top = demo
    base_obs = observe(base)
    base_fp = fingerprint(d, 'Base.fs') if bkind == 'file' else None
    under_obs = observe(under[0], undolog=False) if under else None
    LOG.reset()                    # record raw ops during the demo phase
    dr = Driver(demo_top, rnd, kind='file' if ckind == 'file' else 'mapping', spec=spec)
    dr.undoable_from = nlower
    dr.oids = bdr.oids
    dr.uid = 5000
    ops = ['store'] * 5 + ['multi'] * 2 + ['empty', 'abort', 'stale', 'stale', 'current']
    if ckind == 'file':
        ops += ['undo', 'undo']
    nops = rnd.choice([4, 8, 12])
    changed_base = False
    mid_read = False
    try:
        for i in range(nops):
            k = rnd.choice(ops)
            if k in ('stale', 'current'):
                ex = [o for o in dr.spec.oids() if dr.spec.current(o)[1] is not None and len(dr.spec.revs(o)) >= (2 if k == 'stale' else 1)]
                if not ex:
                    continue
                o = rnd.choice(ex)
                revs = dr.spec.revs(o)
                cur = revs[-1][0]
                t = TransactionMetaData(b'', b'probe')
                demo_top.tpc_begin(t)
                sh.count('stale_serial_probes')
                try:
                    if k == 'stale':
                        stale = rnd.choice([x[0] for x in revs[:-1]] + [z64])
                        which = rnd.choice(['store', 'check'])
                        try:
                            if which == 'store':
                                demo_top.store(o, stale, objs.cell_record('stale'), '', t)
                            else:
                                demo_top.checkCurrentSerialInTransaction(o, stale, t)
                        except ConflictError:
                            pass
                        else:
                            in_base = all(tt in [x.tid for x in dr.spec.txns[:nlower]] for tt in [cur])
                            sh.violation('c16:%s:stale-serial-%s-accepted' % (stack, which),
                                         {'oid': o, 'stale': stale, 'current': cur, 'current_in_lower_layer': in_base, 'trace': trace + dr.trace}, case)
                            return None
                    else:
                        demo_top.checkCurrentSerialInTransaction(o, cur, t)
                finally:
                    demo_top.tpc_abort(t)
                dr.trace.append(k)
                continue
            before = len(dr.spec.txns)
            dr.step([k])
            if len(dr.spec.txns) > before:
                # immediate probe of what the transaction wrote (a divergence is classified where it arises)
                for (o, dta) in dr.spec.txns[-1].records:
                    exp = ('POSKeyError',) if dr.spec.current(o)[1] is None else ('ok', (dr.spec.current(o)[1], dr.spec.current(o)[0]))
                    from zv.spec import canon
                    got = canon(demo_top.load, o)
                    if got != exp:
                        lower = any(x == o for tx in dr.spec.txns[:nlower] for (x, _) in tx.records)
                        unc = False
                        if lower and ckind == 'file':
                            try:
                                demo_top.changes.load(o)
                            except POSKeyError:
                                unc = demo_top.changes._index.get(o) is not None
                        mech = ('c16:object-of-lower-layer-uncreated-in-file-changes-by-undo:load-differs' if unc
                                else 'c16:%s:load-after-commit-differs-from-layered-model' % stack)
                        sh.violation(mech, {'oid': o, 'real': got if got[0] != 'ok' else ('ok', got[1][1]),
                                            'model': exp if exp[0] != 'ok' else ('ok', exp[1][1]), 'trace': trace + dr.trace}, case)
                        return None
                lower_oids = {o for tx in dr.spec.txns[:nlower] for (o, _) in tx.records}
                if any(o in lower_oids for (o, _) in dr.spec.txns[-1].records):
                    changed_base = True
                    sh.count('base_objects_changed_through_demo')
        LOG.enabled = False
        nch = len({o for tx in dr.spec.txns[nlower:] for (o, _) in tx.records})
        if stack in ('push', 'pop'):
            nch_q = nch
        else:
            nch_q = nch
        n, df = battery(demo_top, dr.spec, 'file' if ckind == 'file' else 'mapping', counter=sh.count,
                        nchanges_oids=nch_q, iternext=False, undolog=False, absent_equiv=True)
        mid_read = changed_base
        if df:
            name, real, model = df[0]
            oid = p64(name[1]) if len(name) > 1 and isinstance(name[1], int) and name[0] != 'undoLog' else None
            mech = 'c16:%s:%s-differs-from-layered-model' % (stack, name[0])
            sh.violation(mech, {'first': df[0], 'stack': stack, 'trace': trace + dr.trace}, case)
            return None
        # ids: whatever the demo storage's random source proposes, new_oid() never answers with an id in use in any layer
        from ZODB.utils import u64 as _u64
        # (objects that exist now; an id whose object was deleted or un-created is the subject of a finding recorded under C20)
        in_use = {o for o in dr.spec.oids() if dr.spec.current(o)[1] is not None}
        for o_used in rnd.sample(sorted(in_use), min(3, len(in_use))):
            demo_top._next_oid = _u64(o_used)
            got_oid = demo_top.new_oid()
            sh.count('new_oid_proposals_of_ids_in_use')
            if got_oid in in_use:
                lower = any(x == got_oid for tx in dr.spec.txns[:nlower] for (x, _) in tx.records)
                sh.violation('c16:%s:new-oid-collides-with-an-id-in-use' % stack, {'oid': got_oid, 'in_lower_layer': lower, 'trace': trace + dr.trace}, case)
                return None
        # pack through the demo storage, then the current state must be unchanged
        if rnd.random() < 0.4:
            cur_before = {o: (demo_top.load(o) if dr.spec.current(o)[1] is not None else None) for o in dr.spec.oids()}
            try:
                demo_top.pack(1e11, referencesf, gc=False) if stack in ('map/map', 'file/map', 'push', 'pop') else demo_top.pack(1e11, referencesf)
                dr.trace.append('pack')
            except Exception as e:
                sh.violation('c16:%s:pack-through-demo-raises-%s' % (stack, type(e).__name__), {'exc': repr(e)[:200], 'trace': trace + dr.trace}, case)
                return None
            for o, v in cur_before.items():
                try:
                    now = demo_top.load(o)
                except POSKeyError:
                    now = None
                if now != v:
                    sh.violation('c16:%s:current-state-changed-by-pack' % stack, {'oid': o, 'before': v and v[1], 'after': now and now[1],
                                                                                  'trace': trace + dr.trace}, case)
                    return None
        # --- base untouched
        sh.count('base_unchanged_checks')
        df = first_diff(observe(base), base_obs)
        if df:
            sh.violation('c16:%s:base-observation-changed' % stack, {'diff': df, 'trace': trace + dr.trace}, case)
            return None
        if base_fp is not None and fingerprint(d, 'Base.fs') != base_fp:
            sh.violation('c16:%s:base-files-changed' % stack, {'trace': trace + dr.trace}, case)
            return None
        mut = [op for op in LOG.ops if op[0] in recfs.MUTATING and 'Base.fs' in str(op[1])]
        if mut:
            sh.violation('c16:%s:mutating-raw-op-on-base-file' % stack, {'ops': [(o[0], os.path.basename(o[1])) for o in mut[:4]]}, case)
            return None
        if under is not None:
            if stack == 'pop':
                back = demo_top.pop()
                if back is not under[0]:
                    sh.violation('c16:pop-does-not-return-the-base', {}, case)
                    return None
            df = first_diff(observe(under[0], undolog=False), under_obs)
            if df:
                sh.violation('c16:%s:lower-demo-layer-changed' % stack, {'diff': df, 'trace': trace + dr.trace}, case)
                return None
    except Mismatch as e:
        mech = 'c16:%s:%s' % (stack, e.mechanism)
        sh.violation(mech, {'detail': e.detail, 'trace': trace + dr.trace}, case)
        return None
    finally:
        LOG.enabled = False
        for st in (demo_top, demo, base):
            try:
                st.close()
            except Exception:
                pass
    sh.note('stackings', stack)
    return (digest(stack, trace, dr.trace) if changed_base and mid_read else None, {'seed': s, 'stack': stack, 'trace': (trace + dr.trace)[:16]})


def crafted_undo_base_object(sh, d, case):
    """deterministic witness for the known finding: undo, in a FileStorage changes layer, of the first change to an object of the base"""
    import base64
    import ZODB.MappingStorage
    import ZODB.DemoStorage
    from zv import recfs, clock, objs
    from zv.spec import canon
    from ZODB.Connection import TransactionMetaData
    from ZODB.POSException import POSKeyError
    from ZODB.utils import z64, p64
    FSM = recfs.install()
    recfs.LOG.enabled = False
    clock.install(clock.FakeClock())
    base = ZODB.MappingStorage.MappingStorage()
    oid = p64(1)

    def commit(st, f):
        t = TransactionMetaData(b'', b'w')
        st.tpc_begin(t)
        f(t)
        st.tpc_vote(t)
        return st.tpc_finish(t)
    d0 = objs.cell_record('base state')
    t0 = commit(base, lambda t: base.store(oid, z64, d0, '', t))
    demo = ZODB.DemoStorage.DemoStorage(base=base, changes=FSM.FileStorage(os.path.join(d, 'C.fs')))
    t1 = commit(demo, lambda t: demo.store(oid, t0, objs.cell_record('changed'), '', t))
    t2 = commit(demo, lambda t: demo.undo(base64.encodebytes(t1).rstrip(), t))
    got = canon(demo.load, oid)
    exp = ('ok', (d0, t2))           # the undo is a new revision (tid t2) carrying the base state
    unc = False
    try:
        demo.changes.load(oid)
    except POSKeyError:
        unc = demo.changes._index.get(oid) is not None
    demo.close()
    if got != exp:
        sh.violation('c16:object-of-lower-layer-uncreated-in-file-changes-by-undo:load-differs' if unc
                     else 'c16:map/file:load-after-commit-differs-from-layered-model',
                     {'real_serial': got[1][1] if got[0] == 'ok' else got, 'model_serial': t2, 'crafted': True}, case)


def structured_pack(sh, s, d, case):
    """root modified through the demo (so it lives in the changes), children only in the base: packing the demo
    storage (gc default) must not lose or change the current state"""
    import ZODB
    import ZODB.MappingStorage
    import ZODB.DemoStorage
    import transaction
    from zv import recfs, clock, objs
    from ZODB.serialize import referencesf
    rnd = random.Random(s)
    FSM = recfs.install()
    recfs.LOG.enabled = False
    clock.install(clock.FakeClock())
    ZODB.DemoStorage.random = random.Random(s)
    bkind = rnd.choice(['map', 'file'])
    base = FSM.FileStorage(os.path.join(d, 'PB.fs')) if bkind == 'file' else ZODB.MappingStorage.MappingStorage()
    db = ZODB.DB(base)
    with db.transaction() as c:
        for i in range(rnd.randrange(1, 4)):
            c.root()['b%d' % i] = objs.Cell('base child %d' % i)
    db.close() if False else None
    changes = FSM.FileStorage(os.path.join(d, 'PC.fs')) if rnd.random() < 0.3 else None
    demo = ZODB.DemoStorage.DemoStorage(base=base, changes=changes, close_base_on_close=False)
    variant = rnd.choice(['plain', 'plain', 'pushed-over-unchanged-layer', 'blob-used']) if changes is None else 'plain'
    if variant == 'pushed-over-unchanged-layer':
        demo = demo.push()          # the layer below has no changes of its own; the objects live two layers down
    db2 = ZODB.DB(demo)
    with db2.transaction() as c:
        c.root()['x'] = objs.Cell('changes child')
        if rnd.random() < 0.5:
            c.root()['b0'].payload = 'modified base child'
    if variant == 'blob-used':
        import ZODB.blob
        with db2.transaction() as c:    # the temporary changes get wrapped in a blob storage from here on
            c.root()['blob'] = objs.Cell('holder')
            c.root()['blob'].refs['b'] = ZODB.blob.Blob(b'blob bytes')
    sh.note('structured_pack_variants', variant)

    def snap():
        c = db2.open()
        try:
            return {k: v.payload for k, v in c.root().items()}
        finally:
            c.close()
    before = snap()
    sh.count('structured_pack_scenarios')
    try:
        db2.pack(1e11)
    except Exception as e:
        sh.violation('c16:pack-through-demo-raises-%s' % type(e).__name__,
                     {'exc': repr(e)[:160], 'base': bkind, 'file_changes': changes is not None, 'variant': variant}, case)
    db2.cacheMinimize()
    try:
        after = snap()
    except Exception as e:
        after = 'raises %s' % type(e).__name__
    if after != before:
        sh.violation('c16:pack-through-demo-changes-current-state', {'before': before, 'after': after, 'base': bkind, 'file_changes': changes is not None}, case)
    db2.close()
    base.close()


def blob_stacking(sh, s, d, case):
    """blob-capable stackings: base blobs are readable through the demo storage, new and rewritten blobs go to the
    changes layer, the base's blob directory and data are never touched"""
    import hashlib
    import ZODB
    import ZODB.MappingStorage
    import ZODB.DemoStorage
    import ZODB.blob
    import transaction
    from ZODB.blob import Blob
    from zv import recfs, clock
    from zv.observe import observe, first_diff
    rnd = random.Random(s)
    FSM = recfs.install()
    recfs.LOG.reset()
    recfs.LOG.enabled = False
    clock.install(clock.FakeClock())
    ZODB.DemoStorage.random = random.Random(s)
    bblobs = os.path.join(d, 'baseblobs')
    bkind = rnd.choice(['file', 'blobwrap'])
    base = (FSM.FileStorage(os.path.join(d, 'BB.fs'), blob_dir=bblobs) if bkind == 'file'
            else ZODB.blob.BlobStorage(bblobs, ZODB.MappingStorage.MappingStorage()))
    db = ZODB.DB(base)
    with db.transaction() as c:
        c.root()['b0'] = Blob(b'base blob 0')
        c.root()['b1'] = Blob(b'base blob 1')
    ckind = rnd.choice(['default', 'file'])
    changes = FSM.FileStorage(os.path.join(d, 'BC.fs'), blob_dir=os.path.join(d, 'chblobs')) if ckind == 'file' else None
    demo = ZODB.DemoStorage.DemoStorage(base=base, changes=changes, close_base_on_close=False)

    def fp():
        out = {}
        for root, dirs, files in os.walk(bblobs):
            for f in files:
                pth = os.path.join(root, f)
                with open(pth, 'rb') as fh:
                    out[os.path.relpath(pth, bblobs)] = hashlib.sha1(fh.read()).hexdigest()
        return out
    base_fp = fp()
    base_obs = observe(base, full=False, undolog=False)
    db2 = ZODB.DB(demo)
    tm = transaction.TransactionManager()
    c = db2.open(tm)
    model = {'b0': b'base blob 0', 'b1': b'base blob 1'}
    sh.count('blob_stacking_scenarios')
    wit = {'base': bkind, 'changes': ckind}
    for i in range(rnd.choice([2, 4, 6])):
        tm.begin()
        op = rnd.choice(['rewrite', 'append', 'new', 'abort-rewrite'])
        if op == 'new':
            model['n%d' % i] = b'new %d' % i
            c.root()['n%d' % i] = Blob(model['n%d' % i])
        else:
            name = rnd.choice(sorted(model))
            if op == 'append':
                with c.root()[name].open('a') as f:
                    f.write(b'+a%d' % i)
                model[name] += b'+a%d' % i
            else:
                with c.root()[name].open('w') as f:
                    f.write(b'rw%d' % i)
                if op == 'rewrite':
                    model[name] = b'rw%d' % i
        if op == 'abort-rewrite':
            tm.abort()
        else:
            tm.commit()
        tm2 = transaction.TransactionManager()
        c2 = db2.open(tm2)
        for name, exp in model.items():
            with c2.root()[name].open('r') as f:
                got = f.read()
            if got != exp:
                sh.violation('c16:blob-stacking:blob-read-through-demo-differs', dict(wit, name=name, got=got[:30], expected=exp[:30], op=op), case)
                c2.close()
                return
        c2.close()
        if fp() != base_fp:
            sh.violation('c16:blob-stacking:base-blob-directory-changed', dict(wit, op=op), case)
            return
    c.close()
    df = first_diff(observe(base, full=False, undolog=False), base_obs)
    if df:
        sh.violation('c16:blob-stacking:base-observation-changed', dict(wit, diff=df), case)
    db2.close()
    base.close()


def run_shard(params):
    logging.disable(logging.CRITICAL)
    sh = Shard(params)
    for i in case_indices(params):
        if not sh.time_left():
            break
        s = case_seed(params, i)
        case = {'seed': s}
        d = sh.fresh_dir('c16')
        if i % 6 == 5:
            c2 = {'seed': s, 'structured_pack': True}
            guarded(sh, 'c16', c2, lambda: structured_pack(sh, s, d, c2))
        if i % 6 == 2:
            c3 = {'seed': s, 'blob_stacking': True}
            guarded(sh, 'c16', c3, lambda: blob_stacking(sh, s, sh.fresh_dir('c16b'), c3))
        r = guarded(sh, 'c16', case, lambda: run_case(sh, s, d, case))
        if r:
            sh.case(r[0], r[1])
        else:
            sh.case(None)
    return sh.result()


def replay(case, scratch):
    logging.disable(logging.CRITICAL)
    sh = Shard({'scratch': scratch})
    if case.get('crafted') == 'undo-base-object':
        guarded(sh, 'c16', case, lambda: crafted_undo_base_object(sh, sh.fresh_dir('c16'), case))
        return sh.violations
    if case.get('blob_stacking'):
        guarded(sh, 'c16', case, lambda: blob_stacking(sh, case['seed'], sh.fresh_dir('c16b'), case))
        return sh.violations
    if case.get('structured_pack'):
        guarded(sh, 'c16', case, lambda: structured_pack(sh, case['seed'], sh.fresh_dir('c16'), case))
        return sh.violations
    guarded(sh, 'c16', case, lambda: run_case(sh, case['seed'], sh.fresh_dir('c16'), case))
    return sh.violations
