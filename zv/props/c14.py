"""C14  Object graphs round-trip and reference extraction is exact."""
import logging
import os
import random
import sys
import types

from zv.harness import Shard, split, case_indices, case_seed, digest, guarded

ID = 'C14'
LEVEL = 'exploration'
ENGINE = 'runner'
TECHNIQUE = ('runtime monitoring of generated object graphs through the real Connection/serialize code: isomorphism check in a second '
             'connection, set of stored oids vs model reachability, payload-marker containment per record, referencesf(record) vs '
             'an independent unpickler and vs the model edge list')
RULE = ('generated graphs of 3-40 persistent objects (Cell, PersistentList/Mapping holders, classes with __getnewargs__, a class in a '
        'throw-away module that is deleted before reloading) with sharing, cycles, nesting depth up to 300, persistent objects '
        'inside list/dict/tuple/set, unreachable objects (some explicitly add()ed), weak references and cross-database references '
        '(two-database setups), stored in MappingStorage/FileStorage whose new_oid is replaced by a hostile allocator (all-ASCII '
        'ids, ids containing 0x00/0x2e/0x80/0xff, sequential). Checks: loaded graph isomorphic (kind, payload, edges by oid, one '
        'object per oid per connection); stored oids == reachable from stored objects U explicitly added; a record holds no other '
        'object\'s payload marker; sorted(referencesf(record)) == strong same-database references of the independent decoder == '
        'model edges (weak and cross-database excluded); a missing class loads as a placeholder and re-stores an equal state. '
        'Non-trivial = distinct graphs with a cycle or sharing and at least one non-strong or container-nested reference.')
LEVEL_TEXT = ('Held on generated graphs: every record of every commit was decoded independently and compared with the model edge list '
              'and with referencesf; every graph was reloaded in another connection and compared. Not a proof.')
LEVEL_NOTE = 'Trusts persistent/zodbpickle and the independent decoder in zv/objs.py. Export/import is exercised by a copy-through-export sub-case.'
ASSUMPTIONS = ['graphs are finite and acyclic only by accident; payload markers are unique strings']
REQUIRED_COUNTERS = ('graphs', 'records_checked', 'referencesf_comparisons', 'isomorphism_checks', 'weak_or_xdb_refs', 'export_import_roundtrips', 'placeholders_checked')


def shards(tier, seed):
    return split(tier, seed, 9600, 400000, 40, 900)


def hostile_oids(rnd):
    mode = rnd.choice(['seq', 'ascii', 'mixed', 'high'])
    n = [0]

    def gen():
        n[0] += 1
        k = n[0]
        if mode == 'seq':
            return k.to_bytes(8, 'big')
        if mode == 'ascii':
            return bytes(rnd.choice(b'abcdefghijklmnopqrstuvwxyzABCDEF0123456789._-') for _ in range(7)) + bytes([0x21 + (k % 90)])
        if mode == 'high':
            return bytes([0x80 | rnd.randrange(128) for _ in range(6)]) + k.to_bytes(2, 'big')
        return bytes(rnd.choice([0, 0x2e, 0x80, 0xff, 0x41, 0x0a, 0x27, 0x5c]) for _ in range(6)) + k.to_bytes(2, 'big')
    seen = set()

    def new_oid():
        while True:
            o = gen()
            if o not in seen and o != b'\0' * 8:
                seen.add(o)
                return o
    return mode, new_oid


def make_dyn_class(name):
    import persistent
    mod = types.ModuleType(name)
    sys.modules[name] = mod

    class Dyn(persistent.Persistent):
        def __init__(self, payload=None):
            self.payload = payload
            self.refs = {}
    Dyn.__module__ = name
    Dyn.__qualname__ = 'Dyn'
    mod.Dyn = Dyn
    return Dyn


def legacy_text_oids(data, oids):
    """the record as Python 2 wrote it: every 8-byte oid pickled as a *string* (SHORT_BINSTRING) instead of bytes
    (SHORT_BINBYTES); on Python 3 such an oid unpickles as str when all its bytes are < 0x80"""
    import io
    import pickletools
    out = bytearray(data)
    f = io.BytesIO(data)
    n = 0
    for _ in range(2):
        try:
            for op, arg, pos in pickletools.genops(f):
                # (only all-ASCII oids: text with bytes >= 0x80 does not unpickle under Python 3 at all - such databases
                # need conversion first - so only the all-ASCII case is within the guarantee)
                if op.name == 'SHORT_BINBYTES' and isinstance(arg, bytes) and len(arg) == 8 and arg in oids and max(arg) < 0x80:
                    assert out[pos:pos + 2] == b'C\x08'          # (positions are those of f.tell())
                    out[pos] = ord('U')
                    n += 1
        except Exception:
            break
    return bytes(out), n


def run_case(sh, s, d, case):
    import persistent
    import persistent.wref
    import transaction
    import ZODB
    import ZODB.MappingStorage
    from persistent.list import PersistentList
    from persistent.mapping import PersistentMapping
    from ZODB.serialize import referencesf
    from ZODB.broken import Broken
    from zv import recfs, clock, objs
    rnd = random.Random(s)
    FSM = recfs.install()
    recfs.LOG.enabled = False
    clock.install(clock.FakeClock())
    skind = rnd.choice(['mapping', 'file'])

    def mkst(name):
        return FSM.FileStorage(os.path.join(d, name + '.fs')) if skind == 'file' else ZODB.MappingStorage.MappingStorage()
    st = mkst('one')
    mode, new_oid = hostile_oids(rnd)
    st.new_oid = new_oid
    dbs = {}
    db = ZODB.DB(st, databases=dbs, database_name='one')
    xdb = rnd.random() < 0.3
    if xdb:
        st2 = mkst('two')
        name2 = rnd.choice(['two', 'two', ''])          # (an unnamed <zodb> section of a configuration gives the empty name)
        db2 = ZODB.DB(st2, databases=dbs, database_name=name2)
        sh.note('second_database_names', repr(name2))
    dynname = 'zv_dyn_%d' % s
    Dyn = make_dyn_class(dynname)

    class ArgsMeta(type(persistent.Persistent)):
        pass
    tm = transaction.TransactionManager()
    c = db.open(tm)
    # ---- model
    N = rnd.choice([3, 6, 12, 25, 40])
    kinds = ['cell'] * 5 + ['args', 'dyn', 'plist', 'pmap']
    nodes = []
    for k in range(N):
        nodes.append({'k': k, 'kind': rnd.choice(kinds), 'marker': 'PM%dx%dXYZ' % (s % 100000, k), 'edges': []})
    # reachable core: a random tree over the first R nodes + extra edges (sharing, cycles)
    R = max(1, int(N * rnd.choice([0.6, 0.8, 1.0])))
    forms = ['direct', 'list', 'tuple', 'dict', 'set', 'deep']
    for k in range(1, R):
        p = rnd.randrange(0, k)
        nodes[p]['edges'].append(('strong', rnd.choice(forms), k))
    nshare = rnd.randrange(0, max(1, R))
    has_cycle_or_share = False
    for _ in range(nshare):
        a, b = rnd.randrange(R), rnd.randrange(R)
        nodes[a]['edges'].append(('strong', rnd.choice(forms), b))
        has_cycle_or_share = True
    # unreachable tail: R..N-1, some explicitly added, their own sub-structure
    added = set()
    for k in range(R, N):
        if rnd.random() < 0.5:
            added.add(k)
        if k + 1 < N and rnd.random() < 0.5:
            nodes[k]['edges'].append(('strong', 'direct', k + 1))

    def build(nd):
        kd = nd['kind']
        if kd == 'cell':
            return objs.Cell(nd['marker'])
        if kd == 'args':
            return objs.ArgsCell(nd['marker'])
        if kd == 'dyn':
            return Dyn(nd['marker'])
        if kd == 'plist':
            o = PersistentList()
            o.append(nd['marker'])
            return o
        o = PersistentMapping()
        o['payload'] = nd['marker']
        return o
    real = [build(nd) for nd in nodes]

    def attach(parent, nd_parent, name, value):
        kd = nd_parent['kind']
        if kd == 'plist':
            parent.append((name, value))
        elif kd == 'pmap':
            parent[name] = value
        else:
            parent.refs[name] = value
            parent._p_changed = True

    def wrap(form, tgt):
        if form == 'direct':
            return tgt
        if form == 'list':
            return [1, tgt, 'x']
        if form == 'tuple':
            return (tgt, 2)
        if form == 'dict':
            return {'k': tgt}
        if form == 'set':
            try:
                return {tgt}
            except TypeError:           # PersistentList/Mapping are unhashable
                return [tgt]
        x = tgt
        for _ in range(rnd.choice([5, 50, 300])):
            x = [x]
        return x
    # weak references to brand-new objects that are also strongly reachable, attached *before* the strong edges so that
    # the weak reference is pickled first (within a record, and across records depending on the traversal order)
    early_weak = 0
    for nd in nodes[:R]:
        if nd['kind'] in ('cell', 'args', 'dyn') and rnd.random() < 0.25:
            t = rnd.randrange(R)
            real[nd['k']].refs['a-weak%d' % t] = persistent.wref.WeakRef(real[t])
            nd['edges'].insert(0, ('weak', 'direct', t))
            early_weak += 1
    for nd in nodes:
        for i, (ek, form, t) in enumerate(nd['edges']):
            if ek == 'weak':
                continue
            attach(real[nd['k']], nd, 'e%d' % i, wrap(form, real[t]))
    tm.begin()
    c.root()['g'] = real[0]
    for k in added:
        c.add(real[k])
    if random.Random(s + 21).random() < 0.3:
        # a first attempt fails after everything was serialized (another participant votes no); the same objects are then stored
        # by a second attempt, under whatever ids they get then: every reference, weak ones included, must lead to them
        from zv.shadow import FailingRM
        tm.get().join(FailingRM('tpc_vote', '~~~after'))
        try:
            tm.commit()
            sh.violation('c14:commit-succeeded-although-a-participant-failed', {}, case)
            return None
        except RuntimeError:
            tm.abort()
        sh.count('graphs_stored_by_a_second_attempt_after_a_failed_commit')
        tm.begin()
        c.root()['g'] = real[0]
        for k in added:
            c.add(real[k])
    pre_export = None
    if early_weak == 0 and random.Random(s + 31).random() < 0.4:
        # the copy idiom: an (optimistic) savepoint, then exportFile() inside the transaction - the export must hold what the
        # connection sees, new and changed objects included
        import io as _io
        tm.savepoint(True)
        pre_export = _io.BytesIO()
        c.exportFile(real[0]._p_oid, pre_export)
    tm.commit()
    sh.count('graphs')
    sh.count('weak_refs_to_new_objects', early_weak)
    nonstrong = early_weak
    # second transaction: weak and cross-database references onto committed objects
    tm.begin()
    stored_k = set()

    def closure(starts):
        seen = set()
        todo = list(starts)
        while todo:
            k = todo.pop()
            if k in seen:
                continue
            seen.add(k)
            todo.extend(t for (ek, f, t) in nodes[k]['edges'] if ek == 'strong')
        return seen
    stored_k = closure([0] + sorted(added))
    for k in sorted(stored_k):
        if rnd.random() < 0.25 and nodes[k]['kind'] in ('cell', 'args', 'dyn'):
            t = rnd.choice(sorted(stored_k))
            real[k].refs['w%d' % t] = persistent.wref.WeakRef(real[t])
            real[k]._p_changed = True
            nodes[k]['edges'].append(('weak', 'direct', t))
            nonstrong += 1
    xobjs = []
    xmarkers = []
    if xdb:
        c2 = c.get_connection(name2)
        for k in sorted(stored_k):
            if rnd.random() < 0.2 and nodes[k]['kind'] in ('cell', 'args', 'dyn'):
                # the target's class has / has not constructor arguments, or goes missing before the load
                xkind = rnd.choice(['cell', 'cell', 'args', 'args', 'dyn'])
                xm = 'XDB%dx%dXYZ' % (s % 100000, k)
                xo = objs.Cell(xm) if xkind == 'cell' else objs.ArgsCell(xm) if xkind == 'args' else Dyn(xm)
                c2.add(xo)
                xform = rnd.choice(['direct', 'direct', 'list', 'dict'])
                real[k].refs['x'] = wrap(xform, xo)
                real[k]._p_changed = True
                nodes[k]['edges'].append(('xdb', xform, len(xobjs)))
                xobjs.append(xo)
                xmarkers.append(xm)
                sh.note('xdb_target_kinds', xkind)
                nonstrong += 1
                if rnd.random() < 0.3:
                    real[k].refs['xw'] = persistent.wref.WeakRef(xo)
                    nodes[k]['edges'].append(('xweak', 'direct', len(xobjs) - 1))
                    nonstrong += 1
    tm.commit()
    sh.count('weak_or_xdb_refs', nonstrong)
    oid_of = {k: real[k]._p_oid for k in range(N)}
    wit = {'storage': skind, 'oid_mode': mode, 'nodes': N, 'xdb': xdb}
    # ---- stored oids == closure(root, added)
    it = st.iterator()
    recs = {}
    for t in it:
        for r in t:
            recs[r.oid] = r.data
    if hasattr(it, 'close'):
        it.close()
    root_oid = b'\0' * 8
    exp_stored = {oid_of[k] for k in stored_k} | {root_oid}
    if set(recs) != exp_stored:
        extra = [k for k in range(N) if oid_of[k] in recs and k not in stored_k]
        missing = [k for k in stored_k if oid_of[k] not in recs]
        sh.violation('c14:stored-oids-differ-from-reachable-plus-added', dict(wit, extra_nodes=extra, missing_nodes=missing), case)
        return None
    for k in range(N):
        if k not in stored_k and (real[k]._p_oid is not None or real[k]._p_jar is not None):
            sh.violation('c14:unreachable-object-got-an-oid', dict(wit, node=k), case)
            return None
    # ---- per record: markers, references
    markers = {nd['marker']: nd['k'] for nd in nodes}
    for k in sorted(stored_k):
        data = recs[oid_of[k]]
        sh.count('records_checked')
        for m, owner in markers.items():
            if owner != k and m.encode() in data:
                sh.violation('c14:record-embeds-another-persistent-objects-state', dict(wit, node=k, other=owner), case)
                return None
        if nodes[k]['marker'].encode() not in data:
            sh.violation('c14:record-lacks-own-payload', dict(wit, node=k), case)
            return None
        model_strong = sorted(oid_of[t] for (ek, f, t) in nodes[k]['edges'] if ek == 'strong')
        own = sorted(objs.strong_refs(data))
        got = sorted(referencesf(data))
        sh.count('referencesf_comparisons')
        if own != model_strong:
            sh.violation('c14:record-references-differ-from-model-edges', dict(wit, node=k, decoded=own, model=model_strong), case)
            return None
        if got != model_strong:
            sh.violation('c14:referencesf-differs-from-strong-same-database-references',
                         dict(wit, node=k, referencesf=got, model=model_strong,
                              edge_kinds=sorted({ek for (ek, f, t) in nodes[k]['edges']})), case)
            return None
        allrefs = objs.decode_record(data)[2]
        nweak = sum(1 for r in allrefs if r.fmt in ('w', 'wdb'))
        nx = sum(1 for r in allrefs if r.fmt in ('m', 'n'))
        if nweak != sum(1 for (ek, f, t) in nodes[k]['edges'] if ek in ('weak', 'xweak')) or nx != sum(1 for (ek, f, t) in nodes[k]['edges'] if ek == 'xdb'):
            sh.violation('c14:weak-or-cross-database-reference-count-differs', dict(wit, node=k, weak=nweak, xdb=nx), case)
            return None
    # ---- the same records with their oids pickled as text (as written under Python 2): reference extraction must still give
    #      the same oids, as bytes
    from ZODB.serialize import get_refs
    known = set(recs) | {x._p_oid for x in xobjs}
    legacy = {}
    for o, data in recs.items():
        legacy[o], nrew = legacy_text_oids(data, known)
        if not nrew:
            continue
        sh.count('legacy_text_oid_records_checked')
        want = sorted(referencesf(data))
        try:
            got = referencesf(legacy[o])
            got2 = [r[0] for r in get_refs(legacy[o])]
        except Exception as e:
            sh.violation('c14:referencesf-raises-%s-on-legacy-text-oids' % type(e).__name__, dict(wit, exc=repr(e)[:160]), case)
            return None
        if not all(isinstance(x, bytes) for x in got + got2):
            sh.violation('c14:referencesf-returns-non-bytes-oid-for-legacy-text-oid', dict(wit, types=sorted({type(x).__name__ for x in got + got2})), case)
            return None
        if sorted(got) != want or sorted(got2) != want:
            sh.violation('c14:referencesf-differs-on-legacy-text-oids', dict(wit, got=sorted(got), want=want), case)
            return None
    # ---- isomorphism in a second connection (class of 'dyn' nodes deleted first on some runs)
    drop_class = rnd.random() < 0.5 and skind == 'file'      # needs a fresh DB object (no class cache)
    if drop_class:
        del sys.modules[dynname]
    tmb = transaction.TransactionManager()
    # a fresh DB object so that no class cache survives
    if skind == 'file':
        c.close()
        db.close()
        if xdb:
            db2.close()
        dbs = {}
        st = FSM.FileStorage(os.path.join(d, 'one.fs'))
        db = ZODB.DB(st, databases=dbs, database_name='one')
        if xdb:
            db2 = ZODB.DB(FSM.FileStorage(os.path.join(d, 'two.fs')), databases=dbs, database_name=name2)
    cb = db.open(tmb)
    tmb.begin()
    sh.count('isomorphism_checks')

    def payload_of(o, kd):
        if isinstance(o, Broken):
            return o.__Broken_state__['payload']
        if kd == 'plist':
            return o[0]
        if kd == 'pmap':
            return o['payload']
        return o.payload

    def edges_of(o, kd):
        """[(name-ordered) persistent targets reachable through plain containers] as (kind, oid) pairs"""
        if isinstance(o, Broken):
            vals = [v for n, v in sorted(o.__Broken_state__['refs'].items())]
        elif kd == 'plist':
            vals = [v for (n, v) in list(o)[1:]]
        elif kd == 'pmap':
            vals = [v for n, v in sorted(o.items()) if n != 'payload']
        else:
            vals = [v for n, v in sorted(o.refs.items())]
        out = []

        def walk(v):
            if isinstance(v, persistent.wref.WeakRef):
                # followed as well: it must lead to the object it was made for, in the database that object lives in
                tgt = v()
                if tgt is None:
                    out.append(('weak', v.oid, None, None))
                else:
                    tgt._p_activate()
                    pl = (tgt.__Broken_state__['payload'] if isinstance(tgt, Broken) else tgt[0] if isinstance(tgt, PersistentList)
                          else tgt['payload'] if isinstance(tgt, PersistentMapping) else tgt.payload)
                    out.append(('weak', v.oid, tgt._p_jar.db().database_name, pl))
            elif isinstance(v, persistent.Persistent):
                if v._p_jar is not cb:
                    # the foreign object itself: right database, right state
                    v._p_activate()
                    out.append(('xdb', v._p_oid, v._p_jar.db().database_name,
                                v.__Broken_state__['payload'] if isinstance(v, Broken) else v.payload))
                elif cb.get(v._p_oid) is not v:
                    # identity: following an edge leads to the connection's single object for that oid
                    out.append(('strong-but-not-the-object-the-connection-returns-for-that-oid', v._p_oid))
                else:
                    out.append(('strong', v._p_oid))
            elif isinstance(v, (list, tuple, set, frozenset)):
                for x in v:
                    walk(x)
            elif isinstance(v, dict):
                for x in v.values():
                    walk(x)
        for v in vals:
            walk(v)
        return out
    def iso(sfx):
        for k in sorted(stored_k):
            nd = nodes[k]
            o = cb.get(oid_of[k])
            if cb.get(oid_of[k]) is not o:
                sh.violation('c14:two-objects-for-one-oid-in-a-connection' + sfx, dict(wit, node=k), case)
                return False
            o._p_activate()
            if nd['kind'] == 'dyn' and drop_class:
                sh.count('placeholders_checked')
                if not isinstance(o, Broken):
                    sh.violation('c14:missing-class-not-loaded-as-placeholder' + sfx, dict(wit, node=k, type=type(o).__name__), case)
                    return False
            if payload_of(o, nd['kind']) != nd['marker']:
                sh.violation('c14:loaded-payload-differs' + sfx, dict(wit, node=k), case)
                return False
            got = sorted(edges_of(o, nd['kind']))
            exp = sorted(('strong', oid_of[t]) if ek == 'strong' else ('weak', oid_of[t], 'one', nodes[t]['marker']) if ek == 'weak'
                         else ('weak', xobjs[t]._p_oid, name2, xmarkers[t]) if ek == 'xweak'
                         else ('xdb', xobjs[t]._p_oid, name2, xmarkers[t]) for (ek, f, t) in nd['edges'])
            if got != exp:
                sh.violation('c14:loaded-edges-differ-from-stored-graph' + sfx, dict(wit, node=k, got=got, model=exp), case)
                return False
            # identity: following an edge leads to the connection's single object for that oid
        g = cb.root()['g']
        if g is not cb.get(oid_of[0]):
            sh.violation('c14:root-edge-does-not-lead-to-the-cached-object' + sfx, wit, case)
            return False
        return True
    if not iso(''):
        return None
    # ---- the same connection after ZODB.Connection.resetCaches() and a trip through the pool: its reader, its new ghosts and
    # Connection.get() must all use the one new cache (the objects of the old cache are still in memory at that time)
    if random.Random(s + 11).random() < 0.5:
        import ZODB.Connection
        tmb.abort()
        cb.close()
        ZODB.Connection.resetCaches()
        cb = db.open(tmb)
        tmb.begin()
        sh.count('isomorphism_checks_after_resetCaches')
        if not iso(':after-resetCaches'):
            return None
    # ---- export / import: records are copied with every reference rewritten to a fresh oid
    if nonstrong == 0 and not drop_class:
        import io
        f = io.BytesIO()
        cb.exportFile(oid_of[0], f)

        def roundtrip(f, label):
            f.seek(0)
            ist = ZODB.MappingStorage.MappingStorage()
            imode, inew = hostile_oids(random.Random(s + 3))
            ist.new_oid = inew
            idb = ZODB.DB(ist)
            itm = transaction.TransactionManager()
            ic = idb.open(itm)
            itm.begin()
            io_root = ic.importFile(f)
            if io_root is None:
                itm.abort()
                ic.close()
                idb.close()
                sh.violation('c14:export-holds-no-record-of-the-exported-object' + label, dict(wit), case)
                return False
            ic.root()['imported'] = io_root
            itm.commit()
            sh.count('export_import_roundtrips')
            # compare by payload markers: marker -> sorted markers of strong targets
            by_marker = {}
            seen = set()
            todo = [io_root]
            ok = True
            while todo:
                o = todo.pop()
                if o._p_oid in seen:
                    continue
                seen.add(o._p_oid)
                kd = 'plist' if isinstance(o, PersistentList) else 'pmap' if isinstance(o, PersistentMapping) else 'cell'
                m = payload_of(o, kd)
                tg = []
                cbsave = cb

                def walk2(v):
                    if isinstance(v, persistent.Persistent):
                        tg.append(v)
                    elif isinstance(v, (list, tuple, set, frozenset)):
                        for x in v:
                            walk2(x)
                    elif isinstance(v, dict):
                        for x in v.values():
                            walk2(x)
                vals = ([v for (n, v) in list(o)[1:]] if kd == 'plist' else [v for n, v in o.items() if n != 'payload'] if kd == 'pmap'
                        else list(o.refs.values()))
                for v in vals:
                    walk2(v)
                by_marker[m] = sorted(payload_of(t, 'plist' if isinstance(t, PersistentList) else 'pmap' if isinstance(t, PersistentMapping) else 'cell')
                                      for t in tg)
                todo.extend(tg)
            exp_map = {nodes[k]['marker']: sorted(nodes[t]['marker'] for (ek, f2, t) in nodes[k]['edges'] if ek == 'strong')
                       for k in closure([0])}
            if by_marker != exp_map:
                bad = sorted(m for m in set(by_marker) | set(exp_map) if by_marker.get(m) != exp_map.get(m))[:3]
                sh.violation('c14:imported-graph-differs-from-exported-graph' + label, dict(wit, markers=bad, import_oid_mode=imode), case)
                ic.close()
                idb.close()
                return False
            ic.close()
            idb.close()
            return True
        if not roundtrip(f, ''):
            return None
        if pre_export is not None:
            sh.count('exports_made_inside_the_transaction_after_a_savepoint')
            if not roundtrip(pre_export, ':exported-inside-the-transaction-after-a-savepoint'):
                return None
    # ---- the whole history once more with every all-ASCII oid pickled as text (Python 2 form): same graph when loaded
    if not xdb and any(max(o) < 0x80 for o in recs):
        lst = FSM.FileStorage(os.path.join(d, 'legacy.fs'))
        it = st.iterator()
        nrew = 0
        for t in it:
            lst.tpc_begin(t, t.tid, t.status)
            for r in t:
                ld, n_ = legacy_text_oids(r.data, known) if r.data else (r.data, 0)
                nrew += n_
                lst.restore(r.oid, r.tid, ld, '', None, t)
            lst.tpc_vote(t)
            lst.tpc_finish(t)
        if hasattr(it, 'close'):
            it.close()
        ldb = ZODB.DB(lst, database_name='one')
        cb_main = cb
        cb = ldb.open(transaction.TransactionManager())
        sh.count('legacy_text_oid_graphs_loaded')
        sh.count('legacy_text_oid_references_rewritten', nrew)
        try:
            if not iso(':legacy-text-oids'):
                return None
        finally:
            cb.close()
            ldb.close()
            cb = cb_main
    tmb.abort()
    cb.close()
    db.close()
    if xdb:
        db2.close()
    sys.modules.pop(dynname, None)
    nested = any(f != 'direct' for nd in nodes for (ek, f, t) in nd['edges'])
    nt = has_cycle_or_share and (nonstrong or nested)
    return (digest('g', s, N, mode) if nt else None,
            {'seed': s, 'nodes': N, 'oid_mode': mode, 'storage': skind, 'edges': sum(len(nd['edges']) for nd in nodes), 'added': len(added),
             'first_nodes': [{'kind': nd['kind'], 'edges': nd['edges'][:4]} for nd in nodes[:3]]})


def run_shard(params):
    logging.disable(logging.CRITICAL)
    sh = Shard(params)
    for i in case_indices(params):
        if not sh.time_left():
            break
        s = case_seed(params, i)
        case = {'seed': s}
        d = sh.fresh_dir('c14')
        r = guarded(sh, 'c14', case, lambda: run_case(sh, s, d, case))
        if r:
            sh.case(r[0], r[1])
        else:
            sh.case(None)
    return sh.result()


def replay(case, scratch):
    logging.disable(logging.CRITICAL)
    sh = Shard({'scratch': scratch})
    guarded(sh, 'c14', case, lambda: run_case(sh, case['seed'], sh.fresh_dir('c14'), case))
    return sh.violations
