"""C02  Every transaction reads from one consistent snapshot (scheduler-driven histories + interval oracle)."""
import logging
import os
import random
import time

from zv.harness import Shard, split, digest

ID = 'C02'
WHICH = 'c02'
LEVEL = 'exploration'
ENGINE = 'Sched'
TECHNIQUE = ('runtime monitoring of concurrent histories under a deterministic baton scheduler (lock, condition, raw-I/O and statement-level '
             'yield points; sticky walks, priority schedules and a location-indexed delay sweep): every read is attributed to the '
             'revision that stored its unique value and the revision intervals of each transaction are intersected, with a '
             'freshness bound from the last commit completed before the boundary')
RULE = ('worlds of 2 committers (read-modify-write of 1-3 of 4 cells with one unique token per transaction, readCurrent dependencies, a '
        'mergeable counter), 1-2 readers (random read order, ghostified objects, cacheMinimize, connection reuse, close/reopen from the '
        'pool, abort or commit) and, on FileStorage, optionally a packer, on FileStorage, MappingStorage, DemoStorage and DemoStorage over '
        'a FileStorage changes layer. One schedule per world; strategies cycle through sticky(0.5/0.9/0.97), PCT depth 1-3 and parking '
        'each (thread, file, line) location seen in a dry run at its 1st-3rd occurrence until all other threads finished or blocked. '
        'Oracle per transaction: each (oid, serial, token) read must be a stored revision with that token; the intervals '
        '[serial, next revision) must intersect (consistent) and intersect above the tid of the last commit whose return preceded the '
        'transaction\'s boundary (fresh); own writes visible; readers may only fail with ReadConflictError when a packer runs. '
        'evaluations = schedules executed; distinct_nontrivial = distinct decision traces in which at least one reading transaction '
        'overlapped a commit return. In addition all interleavings of the steps of two single-threaded connections (5 small programs, every pair; quick: every third order) are enumerated with an exact snapshot model (step_orders counter).')
LEVEL_TEXT = ('Held on the explored schedules (tens of thousands of distinct interleavings at statement granularity per thorough run); '
              'no finite set of schedules proves the universally quantified statement.')
LEVEL_NOTE = ('Interleavings finer than statement starts inside one Python statement are not produced. Revision lists are read from the '
              'storage iterator after the run (C04). Deadlock is decided on scheduler state, never on wall-clock.')
ASSUMPTIONS = ['thread switches at statement starts, lock operations and raw I/O calls are a subset of the real interleavings']
REQUIRED_COUNTERS = ('schedules', 'context_switches', 'reader_transactions_checked', 'transactions_overlapping_a_commit', 'ok_commits',
                     'locations_parked', 'step_orders')

KINDS = ['file', 'file', 'mapping', 'demo', 'demo-file', 'file+packer', 'demo-based']


def shards(tier, seed):
    return split(tier, seed, 16, 16, 45, 900)


def step_orders(sh, params):
    """exhaustive interleavings of the steps of two single-threaded connections (no scheduler): every read must show
    the state as of the reader's last boundary plus its own writes"""
    import transaction
    import ZODB
    import ZODB.MappingStorage
    import ZODB.DemoStorage
    from zv import recfs, objs
    from ZODB.POSException import ConflictError
    FSM = recfs.install()
    recfs.LOG.enabled = False
    progs = [
        [('begin',), ('read', 'x'), ('write', 'x'), ('read', 'y'), ('commit',)],
        [('begin',), ('read', 'y'), ('write', 'y'), ('commit',), ('read', 'x')],
        [('begin',), ('read', 'x'), ('abort',), ('read', 'x'), ('read', 'y')],
        [('begin',), ('write', 'x'), ('write', 'y'), ('commit',), ('reopen',), ('read', 'x')],
        [('begin',), ('read', 'x'), ('minimize',), ('read', 'y'), ('read', 'x'), ('commit',)],
    ]

    def orders(a, b):
        if not a and not b:
            yield []
            return
        if a:
            for r in orders(a[1:], b):
                yield [(0, a[0])] + r
        if b:
            for r in orders(a, b[1:]):
                yield [(1, b[0])] + r
    pairs = [(i, j) for i in range(len(progs)) for j in range(len(progs))]
    mine = pairs[params['shard']::params['nshards']]
    kinds = ['file', 'mapping', 'demo']
    n = 0
    for (i, j) in mine:
        allo = list(orders(progs[i], progs[j]))
        if params['tier'] == 'quick':
            allo = allo[::3]
        for order in allo:
            kind = kinds[n % 3]
            n += 1
            d = sh.fresh_dir('so')
            st = (FSM.FileStorage(os.path.join(d, 'D.fs')) if kind == 'file' else
                  ZODB.MappingStorage.MappingStorage() if kind == 'mapping' else ZODB.DemoStorage.DemoStorage())
            db = ZODB.DB(st)
            with db.transaction() as c:
                c.root()['x'] = objs.Plain()
                c.root()['y'] = objs.Plain()
            tms = [transaction.TransactionManager(), transaction.TransactionManager()]
            conns = [db.open(tms[0]), db.open(tms[1])]
            committed = {'x': 'init', 'y': 'init'}
            snap = [dict(committed), dict(committed)]      # what each connection must see
            own = [{}, {}]
            uid = 0
            for (ci, stp) in order:
                c, tm = conns[ci], tms[ci]
                if stp[0] == 'begin':
                    tm.begin()
                    snap[ci] = dict(committed)
                    own[ci] = {}
                elif stp[0] == 'read':
                    got = c.root()[stp[1]].tok
                    exp = own[ci].get(stp[1], snap[ci][stp[1]])
                    if got != exp:
                        sh.violation('c02:%s:step-order:read-differs-from-snapshot-at-boundary' % kind,
                                     {'order': order, 'conn': ci, 'object': stp[1], 'got': got, 'expected': exp},
                                     {'step_order': True, 'kind': kind})
                elif stp[0] == 'write':
                    uid += 1
                    o = c.root()[stp[1]]
                    o.base, o.tok = o.tok, 'w%d-%d' % (ci, uid)
                    own[ci][stp[1]] = o.tok
                elif stp[0] == 'minimize':
                    c.cacheMinimize()
                elif stp[0] == 'commit':
                    try:
                        tm.commit()
                        committed.update(own[ci])
                    except ConflictError:
                        tm.abort()
                    snap[ci] = dict(committed)          # commit/abort is a boundary
                    own[ci] = {}
                elif stp[0] == 'abort':
                    tm.abort()
                    snap[ci] = dict(committed)
                    own[ci] = {}
                elif stp[0] == 'reopen':
                    tm.abort()
                    c.close()
                    conns[ci] = db.open(tm)
                    snap[ci] = dict(committed)
                    own[ci] = {}
            for c in conns:
                c.close()
            db.close()
            sh.count('step_orders')


def run_shard(params, which=None):
    from zv import mvccload
    which = which or WHICH
    logging.disable(logging.CRITICAL)
    sh = Shard(params)
    free = params['shard'] % 8 == 7        # 2 of 16 shards: the same worlds with freely running threads (bytecode-level preemption)
    if which == 'c02' and not free:
        try:
            step_orders(sh, params)
        except Exception:
            import traceback
            sh.violation('c02:step-order:harness-or-code-raises', {'exc': traceback.format_exc()[-600:]}, {'step_order': True})
    s0 = params['seed'] * 100003 + params['shard'] * 7919
    rnd = random.Random(s0)
    sweep = {}
    sweep_pos = {}
    i = 0
    while sh.time_left():
        i += 1
        kind = KINDS[i % len(KINDS)]
        packer = kind.endswith('+packer')
        k0 = kind.split('+')[0]
        mode = ('sticky', 'sticky', 'pct', 'park', 'sticky', 'park', 'pct', 'park')[i % 8]
        seed = (s0 + i * 104729) & 0x7fffffff
        kw = dict(packer=packer)
        if free:
            mode = 'free'
            sh.count('free_running_worlds')
        if mode == 'sticky':
            kw['stick'] = rnd.choice([0.5, 0.9, 0.97])
        elif mode == 'pct':
            kw['pct_depth'] = rnd.choice([1, 2, 3])
        elif mode == 'park':
            if kind not in sweep:
                dry = mvccload.run_schedule(params['seed'] + 1, k0, 'pct', sh.scratch, pct_depth=1, packer=packer, collect_locs=True)
                locs = sorted((k + (o,)) for k, n in (dry['locs'] or {}).items() for o in range(1, min(n, 3) + 1))
                random.Random(params['seed']).shuffle(locs)
                # statements of the storage layers first (and first occurrences before later ones): a quick run then parks a thread
                # at every one of them, the connection-level statements follow as time allows
                locs.sort(key=lambda l: (l[1] == 'Connection.py', l[3]))
                sweep[kind] = locs[params['shard']::params['nshards']]
                sweep_pos[kind] = 0
                sh.count('locations_seen', len(locs))
            if not sweep[kind]:
                continue
            loc = sweep[kind][sweep_pos[kind] % len(sweep[kind])]
            sweep_pos[kind] += 1
            kw['park'] = loc
            seed = params['seed'] + 1          # the sweep replays the dry-run world and perturbs one location
            sh.count('locations_parked')
        strategy = 'pct' if mode == 'park' else mode
        case = {'seed': seed, 'kind': kind, 'strategy': strategy, 'kw': {k: (list(v) if isinstance(v, tuple) else v) for k, v in kw.items()}}
        try:
            out = mvccload.run_schedule(seed, k0, strategy, sh.scratch, **kw)
        except Exception as e:
            import traceback
            sh.violation('%s:%s:harness-or-world-setup-raises-%s' % (which, kind, type(e).__name__), {'exc': traceback.format_exc()[-600:]}, case)
            sh.case(None)
            continue
        sh.count('schedules')
        sh.count('wall_clock_watchdog_reruns', out.get('watchdog_reruns', 0))
        sh.count('context_switches', out['switches'])
        sh.count('scheduling_decisions', out['decisions'])
        sh.count('reader_transactions_checked', out['reader_txns'])
        sh.count('transactions_overlapping_a_commit', out['overlap'])
        sh.count('ok_commits', out['ok_commits'])
        sh.count('conflicts_raised', out['conflicts'])
        sh.count('commits_failed_after_the_storage_voted', out.get('vote_failures', 0))
        sh.count('undo_commits_in_worlds', out.get('undos', 0))
        sh.count('historical_connection_transactions_checked', out.get('historical_txns', 0))
        sh.count('historical_connections_refused_as_in_the_future', out.get('historical_refused', 0))
        if out.get('stalled_clock'):
            sh.count('worlds_under_a_stalled_clock')
        for p in out['pack']:
            sh.note('pack_outcomes', p)
        for f in out['sched']:
            # a deadlock / runaway / unexpected thread exception refutes "however the commits of other threads interleave"
            sh.violation('%s:%s:%s' % (which, kind, f[0] if f[0] != 'thread-exception' else 'thread-raises-%s' % f[2]), {'detail': f[1:]}, case)
        for v in out[which]:
            sh.violation('%s:%s:%s' % (which, kind, v[0]), {'witness': v[1:]}, case)
        nt = out['overlap'] > 0 if which == 'c02' else (out['ok_commits'] >= 2 and out['conflicts'] + out['overlap'] > 0)
        sh.case(digest(kind, out['digest']) if nt else None, {'kind': kind, 'strategy': strategy, 'seed': seed, 'switches': out['switches'],
                                                              'decisions': out['decisions'], 'ok_commits': out['ok_commits']})
    return sh.result()


def replay(case, scratch):
    from zv import mvccload
    logging.disable(logging.CRITICAL)
    kw = dict(case.get('kw', {}))
    if kw.get('park'):
        kw['park'] = tuple(kw['park'])
    out = mvccload.run_schedule(case['seed'], case['kind'].split('+')[0], case['strategy'], scratch, **kw)
    vs = [{'mechanism': '%s:%s:%s' % (WHICH, case['kind'], v[0]), 'detail': {'witness': v[1:]}, 'case': case} for v in out[WHICH]]
    vs += [{'mechanism': '%s:%s:%s' % (WHICH, case['kind'], f[0]), 'detail': {'detail': f[1:]}, 'case': case} for f in out['sched']]
    return vs
