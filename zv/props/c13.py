"""C13  Blob data commits, aborts, undoes and packs together with its object record."""
import gc
import hashlib
import logging
import os
import random

from zv.harness import Shard, split, case_indices, case_seed, digest, guarded

ID = 'C13'
LEVEL = 'exploration'
ENGINE = 'RecFS+Spec'
TECHNIQUE = ('runtime monitoring of the blob directory against the committed records: at every quiescent point the set of *.blob files '
             'must equal the set of committed blob revisions (from the storage iterator + independent record decoder), bytes must equal '
             'the model, inode/hash of committed files must be stable, the temp area must be empty; a second connection reads all '
             'blobs mid-transaction; raw-op monitor for writes to committed paths')
RULE = ('random programs over Blob objects through the Connection API: create, rewrite (w), append (a), in-place edit (r+), '
        'consumeFile, savepoint, rollback, commit, abort, failed commits (conflict on another object stored after the blob, foreign '
        'resource manager failing in commit/tpc_vote sorted before/after, injected raw write failure in vote), undo and undo of '
        'undo, pack at random times, with and without other objects in the same transaction, on FileStorage+blob_dir and on the '
        'blob wrapper over MappingStorage. Quiescent-point oracle: {(oid,tid) of *.blob files} == {(oid,tid) of blob records with '
        'data in the storage iterator}; every file\'s bytes == model content of that revision; no file of an aborted tid; temp dir '
        'empty after gc; files present at the previous point are byte- and inode-identical unless legitimately removed by pack. '
        'Mid-transaction and after savepoints a second connection must read exactly the committed bytes. Non-trivial = distinct '
        'programs with a failed commit or abort after a blob was written, plus an undo or a pack that removed a file.')
LEVEL_TEXT = ('Held on generated blob programs: every quiescent point compared the blob directory with the committed records and the '
              'content model. Not a proof.')
LEVEL_NOTE = 'Trusts the storage iterator for the list of committed records (C04) and the independent decoder for "is a blob record".'
ASSUMPTIONS = ['quiescent point = no transaction in progress, no open blob file, gc.collect() done']
REQUIRED_COUNTERS = ('quiescent_checks', 'blob_files_compared', 'second_connection_blob_reads', 'failed_commits', 'undos', 'packs', 'committed_file_stability_checks')

OPS = (['new'] * 4 + ['rewrite'] * 3 + ['append'] * 2 + ['edit', 'consume', 'plain', 'minimize', 'relink'] + ['savepoint'] * 2 + ['rollback'] * 2 + ['commit'] * 5 +
       ['abort'] * 2 + ['fail-conflict', 'fail-foreign', 'fail-foreign', 'fail-io'] + ['undo'] * 3 + ['undo2'] * 2 + ['pack'])


def shards(tier, seed):
    return split(tier, seed, 3200, 160000, 45, 900)


def blob_files(blob_dir):
    out = {}
    for root, dirs, files in os.walk(blob_dir):
        if os.path.basename(root) == 'tmp' and os.path.dirname(root) == blob_dir:
            continue
        for f in files:
            if f.endswith('.blob'):
                out[os.path.join(root, f)] = None
    return out


def tmp_files(blob_dir):
    t = os.path.join(blob_dir, 'tmp')
    out = []
    if os.path.isdir(t):
        for root, dirs, files in os.walk(t):
            out += [os.path.join(root, f) for f in files]
    return out


def run_case(sh, s, d, case):
    import ZODB
    import ZODB.MappingStorage
    import ZODB.blob
    import transaction
    from ZODB.blob import Blob
    from ZODB.POSException import ConflictError, UndoError, POSKeyError
    from ZODB.utils import p64, u64
    from persistent.TimeStamp import TimeStamp
    from zv import recfs, clock, objs
    from zv.shadow import FailingRM
    rnd = random.Random(s)
    FSM = recfs.install()
    LOG = recfs.LOG
    LOG.reset()
    LOG.enabled = False
    clock.install(clock.FakeClock())
    kind = rnd.choice(['file', 'file', 'blobwrap'])
    blob_dir = os.path.join(d, 'blobs')
    if kind == 'file':
        st = FSM.FileStorage(os.path.join(d, 'Data.fs'), blob_dir=blob_dir)
    elif kind == 'blobwrap-file':
        st = ZODB.blob.BlobStorage(blob_dir, FSM.FileStorage(os.path.join(d, 'Data.fs')))
    else:
        st = ZODB.blob.BlobStorage(blob_dir, ZODB.MappingStorage.MappingStorage())
    db = ZODB.DB(st)
    tm = transaction.TransactionManager()
    c = db.open(tm)
    tm.begin()
    c.root()['other'] = objs.Plain()
    tm.get().note('initial database creation (harness setup)')
    tm.commit()
    trace = []
    uid = [0]
    names = []                       # blob names in root (committed or pending)
    pending = {}                     # name -> bytes written in the current transaction (None = created then...)
    committed = {}                   # name -> current committed bytes
    content_at = {}                  # (oid, tid) -> bytes
    oid_of = {}
    sp_stack = []                    # (savepoint, pending copy, names copy)
    feats = set()
    stable = {}                      # path -> (inode, sha1)
    removed_by_pack_ok = set()
    packed_T = [None]                # snapshots at or before the last pack time carry no guarantee

    def content(name):
        return pending[name] if name in pending else committed.get(name)

    def newbytes():
        uid[0] += 1
        return (b'blob-%d-%d|' % (s % 100000, uid[0])) * rnd.choice([1, 3, 50, 2000])

    def quiescent(where):
        gc.collect()
        sh.count('quiescent_checks')
        # expected revisions from the storage
        it = st.iterator()
        exp = {}
        for t in it:
            for r in t:
                if r.data is not None:
                    try:
                        meta = objs.decode_record(r.data)[0]
                    except Exception:
                        meta = None
                    if meta is Blob:
                        exp[(r.oid, t.tid)] = True
        if hasattr(it, 'close'):
            it.close()
        files = blob_files(blob_dir)
        got = {}
        for p in files:
            oid, tid = st.fshelper.splitBlobFilename(p)
            got[(oid, tid)] = p
        wit = {'where': where, 'kind': kind, 'trace': trace[-25:]}
        extra = sorted(set(got) - set(exp))
        missing = sorted(set(exp) - set(got))
        if extra:
            o, t = extra[0]
            known_tids = {k[1] for k in exp}
            sh.violation('c13:%s:blob-file-without-committed-record%s' % (kind, '' if t in known_tids else ':tid-of-no-committed-transaction'),
                         dict(wit, oid=o, tid=t, n=len(extra)), case)
            return False
        if missing:
            o, t = missing[0]
            sh.violation('c13:%s:committed-blob-revision-without-file' % kind, dict(wit, oid=o, tid=t, n=len(missing)), case)
            return False
        for key, p in got.items():
            with open(p, 'rb') as f:
                b = f.read()
            sh.count('blob_files_compared')
            if key in content_at and content_at[key] is not None and content_at[key] != b:
                sh.violation('c13:%s:blob-bytes-differ-from-what-was-written' % kind, dict(wit, oid=key[0], tid=key[1], size=len(b)), case)
                return False
            ino = os.stat(p).st_ino
            h = hashlib.sha1(b).hexdigest()
            if p in stable:
                sh.count('committed_file_stability_checks')
                if stable[p] != (ino, h):
                    sh.violation('c13:%s:committed-blob-file-modified-in-place-or-replaced' % kind, dict(wit, oid=key[0], tid=key[1]), case)
                    return False
            stable[p] = (ino, h)
        for p in list(stable):
            if p not in files:
                del stable[p]
        # every committed blob revision still in the storage reads back through a historical connection at its tid
        keys = [k2 for k2 in got if content_at.get(k2) is not None and (packed_T[0] is None or k2[1] > packed_T[0])]
        if keys and rnd.random() < 0.3:
            (ho, ht) = rnd.choice(sorted(keys))
            htm = transaction.TransactionManager()
            try:
                hc = db.open(htm, at=ht)
                try:
                    with hc.get(ho).open('r') as f:
                        hb = f.read()
                finally:
                    hc.close()
                sh.count('historical_blob_reads')
                if hb != content_at[(ho, ht)]:
                    sh.violation('c13:%s:historical-read-of-blob-revision-differs' % kind, dict(wit, oid=ho, tid=ht), case)
                    return False
            except POSKeyError as e:
                sh.violation('c13:%s:historical-read-of-blob-revision-raises-POSKeyError' % kind, dict(wit, oid=ho, tid=ht, exc=repr(e)[:120]), case)
                return False
        tf = tmp_files(blob_dir)
        if tf:
            sh.violation('c13:%s:temporary-blob-file-left-behind' % kind, dict(wit, files=[os.path.basename(x) for x in tf[:3]]), case)
            return False
        # raw-op monitor: no write/truncate recorded on a committed blob path after it was put in place
        for op in LOG.ops:
            if op[0] in ('write', 'truncate') and str(op[1]).endswith('.blob') and '/tmp/' not in str(op[1]):
                placed = [o2 for o2 in LOG.ops if o2[0] in ('rename', 'link') and o2[2] == op[1]]
                if placed and LOG.ops.index(placed[0]) < LOG.ops.index(op):
                    sh.violation('c13:%s:raw-write-to-committed-blob-file' % kind, dict(wit, path=os.path.basename(op[1])), case)
                    return False
        return True

    def second_connection(where):
        tm2 = transaction.TransactionManager()
        c2 = db.open(tm2)
        try:
            tm2.begin()
            for name, exp in committed.items():
                sh.count('second_connection_blob_reads')
                b = c2.root().get(name)
                if exp is None:
                    if b is not None:
                        sh.violation('c13:%s:second-connection-sees-uncommitted-blob' % kind, {'where': where, 'name': name, 'trace': trace[-20:]}, case)
                        return False
                    continue
                if b is None:
                    sh.violation('c13:%s:second-connection-misses-committed-blob' % kind, {'where': where, 'name': name, 'trace': trace[-20:]}, case)
                    return False
                with b.open('r') as f:
                    got = f.read()
                if got != exp:
                    sh.violation('c13:%s:second-connection-reads-uncommitted-or-wrong-blob-bytes' % kind,
                                 {'where': where, 'name': name, 'got': got[:30], 'expected': exp[:30], 'trace': trace[-20:]}, case)
                    return False
            for name in c2.root().keys():
                if name.startswith('b') and committed.get(name) is None:
                    sh.violation('c13:%s:second-connection-sees-uncommitted-blob' % kind, {'where': where, 'name': name, 'trace': trace[-20:]}, case)
                    return False
            tm2.abort()
        finally:
            c2.close()
        return True

    def after_commit():
        tid = st.lastTransaction()
        for name in list(pending):
            committed[name] = pending[name]
            b = c.root()[name]
            oid_of[name] = b._p_oid
            content_at[(b._p_oid, tid)] = pending[name]
        pending.clear()
        del sp_stack[:]

    def after_abort():
        for name in list(pending):
            if name not in committed:
                names.remove(name) if name in names else None
        pending.clear()
        del sp_stack[:]
    held = {}
    unadded = []
    extra_pack_tids = []
    garbage_windows = []
    hrnd = random.Random(s + 77)

    def readd():
        """A Blob object the program kept, un-added by a rollback or an abort, is attached again in a transaction of its own:
        the commit is either refused or stores a blob that every connection can read - never a reference to nothing."""
        from ZODB.interfaces import BlobError
        obj = held.pop(unadded.pop(0))
        del unadded[:]
        if obj._p_jar is not None or obj._p_oid is not None:
            sh.violation('c13:%s:un-added-blob-still-owned' % kind, {'trace': trace[-20:]}, case)
            return False
        uid[0] += 1
        nm = 'b%d' % uid[0]
        tm.begin()
        c.root()[nm] = obj
        sh.count('un_added_blob_objects_attached_again')
        try:
            tm.commit()
        except (BlobError, POSKeyError) as e:
            tm.abort()
            sh.count('re_attached_blob_refused_by_the_commit')
            trace.append('readd:refused-%s' % type(e).__name__)
            return quiescent('after-refused-readd') and second_connection('after-refused-readd')
        trace.append('readd:committed')
        try:
            with c.root()[nm].open('r') as f:
                got = f.read()
            c2 = db.open(transaction.TransactionManager())
            try:
                with c2.root()[nm].open('r') as f:
                    got2 = f.read()
            finally:
                c2.close()
        except POSKeyError as e:
            sh.violation('c13:%s:commit-stored-a-reference-to-a-re-attached-blob-without-storing-the-blob' % kind,
                         {'exc': repr(e)[:120], 'trace': trace[-20:]}, case)
            return False
        if got != got2:
            sh.violation('c13:%s:re-attached-blob-reads-differently-in-another-connection' % kind, {'trace': trace[-20:]}, case)
            return False
        names.append(nm)
        committed[nm] = got
        oid_of[nm] = c.root()[nm]._p_oid
        content_at[(oid_of[nm], st.lastTransaction())] = got
        return quiescent('after-readd') and second_connection('after-readd')
    LOG.enabled = True
    nops = rnd.choice([10, 20, 35])
    try:
        for i in range(nops):
            k = rnd.choice(OPS)
            live = [n for n in names if content(n) is not None]
            if k == 'new' or (k in ('rewrite', 'append', 'edit', 'consume') and not live):
                uid[0] += 1
                name = 'b%d' % uid[0]
                b = Blob()
                data = newbytes()
                with b.open('w') as f:
                    f.write(data)
                c.root()[name] = b
                if hrnd.random() < 0.3:
                    held[name] = b              # the program keeps the Blob object (most programs do not)
                del b
                names.append(name)
                pending[name] = data
                trace.append('new(%s)' % name)
            elif k == 'rewrite':
                name = rnd.choice(live)
                data = newbytes()
                with c.root()[name].open('w') as f:
                    f.write(data)
                pending[name] = data
                trace.append('rewrite(%s)' % name)
            elif k == 'append':
                name = rnd.choice(live)
                add = b'+app%d' % i
                with c.root()[name].open('a') as f:
                    f.write(add)
                pending[name] = content(name) + add
                trace.append('append(%s)' % name)
            elif k == 'edit':
                name = rnd.choice(live)
                cur = content(name)
                with c.root()[name].open('r+') as f:
                    f.seek(0)
                    f.write(b'EDIT')
                pending[name] = b'EDIT' + cur[4:]
                trace.append('edit(%s)' % name)
            elif k == 'consume':
                name = rnd.choice(live)
                data = newbytes()
                p = os.path.join(d, 'consume-%d' % i)
                with open(p, 'wb') as f:
                    f.write(data)
                c.root()[name].consumeFile(p)
                pending[name] = data
                trace.append('consume(%s)' % name)
            elif k == 'plain':
                c.root()['other'].tok = 'v%d' % i
                trace.append('plain')
            elif k == 'minimize':
                # unmodified objects become ghosts and, unreferenced then, leave the cache (blobs stored by a savepoint included)
                c.cacheMinimize()
                gc.collect()
                sh.count('cache_minimized_in_mid_transaction')
                trace.append('minimize')
            elif k == 'savepoint':
                sp = tm.savepoint()
                prevp = sp_stack[-1][1] if sp_stack else {}
                changed_since = {n for n in pending if pending[n] != prevp.get(n, committed.get(n) if n not in prevp else None) or n not in prevp}
                sp_stack.append((sp, dict(pending), list(names), changed_since))
                trace.append('savepoint')
                if not second_connection('after-savepoint'):
                    return None
            elif k == 'rollback' and sp_stack:
                j = rnd.randrange(len(sp_stack))
                sp, pend, nms, _chg = sp_stack[j]
                later_stored = set()
                for x in sp_stack[j + 1:]:
                    later_stored |= x[3]
                sp.rollback()
                del sp_stack[j + 1:]
                pending.clear()
                pending.update(pend)
                unadded.extend(n for n in names if n not in nms and n in held)
                names[:] = nms
                trace.append('rollback#%d' % j)
                # every live blob must read the bytes it had at the savepoint again (pending ones: the savepoint bytes,
                # the others: their committed bytes)
                for name in [n for n in names if content(n) is not None]:
                    exp = content(name)
                    with c.root()[name].open('r') as f:
                        got = f.read()
                    if got != exp:
                        # deciding feature of the known finding: the same blob was stored again by a savepoint taken
                        # after the rollback target (savepoint blob files are named by oid+serial only)
                        feat = ':blob-stored-again-by-a-later-savepoint' if name in later_stored else ''
                        sh.violation('c13:%s:blob-bytes-after-rollback-differ-from-savepoint%s' % (kind, feat), {'name': name, 'trace': trace[-20:]}, case)
                        return None
            elif k == 'commit':
                if rnd.random() < 0.5:
                    if not second_connection('mid-transaction'):
                        return None
                tm.commit()
                after_commit()
                trace.append('commit')
                if not quiescent('after-commit') or not second_connection('after-commit'):
                    return None
            elif k == 'abort':
                unadded.extend(n for n in pending if n not in committed and n in held)
                tm.abort()
                after_abort()
                trace.append('abort')
                feats.add('abort' if True else '')
                if not quiescent('after-abort') or not second_connection('after-abort'):
                    return None
                if unadded and not readd():
                    return None
            elif k.startswith('fail-'):
                if not pending:
                    continue
                what = k[5:]
                if what == 'io' and kind != 'file':
                    what = 'foreign'
                if what == 'conflict':
                    # 'other' is modified here and by a second connection: the blob(s) of this txn are stored first or later
                    c.root()['other'].tok = 'mine%d' % i
                    tm2 = transaction.TransactionManager()
                    c2 = db.open(tm2)
                    tm2.begin()
                    on_blob = [nm for nm in pending if pending[nm] is not None and committed.get(nm) is not None and nm in oid_of]
                    if on_blob and rnd.random() < 0.6:
                        # the conflict is on a blob's own record: the other connection rewrites a blob this transaction rewrites too
                        nm = rnd.choice(sorted(on_blob))
                        theirs = b'theirs %d' % i
                        with c2.root()[nm].open('w') as f2:
                            f2.write(theirs)
                        tm2.commit()
                        committed[nm] = theirs
                        content_at[(oid_of[nm], st.lastTransaction())] = theirs
                        sh.count('conflicts_on_a_blob_record')
                    else:
                        c2.root()['other'].tok = 'theirs%d' % i
                        tm2.commit()
                    c2.close()
                    try:
                        tm.commit()
                        sh.violation('c13:%s:conflicting-commit-accepted' % kind, {'trace': trace[-20:]}, case)
                        return None
                    except ConflictError:
                        tm.abort()
                elif what == 'foreign':
                    rm = FailingRM(rnd.choice(['commit', 'tpc_vote']), rnd.choice(['!before', '~~~after']))
                    tm.get().join(rm)
                    try:
                        tm.commit()
                        sh.violation('c13:%s:commit-succeeded-although-a-participant-failed' % kind, {}, case)
                        return None
                    except RuntimeError:
                        tm.abort()
                    what = 'foreign-%s-%s' % (rm.phase, rm.key[1:])
                else:
                    fired = [0]

                    def fault(op):
                        if op[0] == 'write' and op[1].endswith('Data.fs') and not fired[0]:
                            fired[0] = 1
                            return ('raise', 28)
                        return None
                    LOG.fault = fault
                    try:
                        tm.commit()
                        LOG.fault = None
                        after_commit()
                        trace.append('commit')
                        continue
                    except OSError:
                        LOG.fault = None
                        tm.abort()
                after_abort()
                sh.count('failed_commits')
                feats.add('failed')
                trace.append('fail(%s)' % what)
                if not quiescent('after-failed-commit(%s)' % what) or not second_connection('after-failed-commit'):
                    return None
            elif k in ('undo', 'undo2') and kind in ('file', 'blobwrap-file') and not pending:
                tm.abort()
                del sp_stack[:]
                info = [x for x in db.undoInfo(0, 5) if not str(x['description']).replace("b'", '').startswith('initial database creation')]
                if not info or (k == 'undo2' and len(info) < 2):
                    continue
                import base64
                if k == 'undo':
                    us = [rnd.choice(info)]
                else:
                    j = rnd.randrange(len(info) - 1)
                    us = [info[j], info[j + 1]]              # two consecutive transactions, newest first, undone in one transaction
                utids = [base64.decodebytes(u['id'] + b'\n') for u in us]
                tm.begin()
                if k == 'undo':
                    db.undo(us[0]['id'], tm.get())
                else:
                    db.undoMultiple([u['id'] for u in us], tm.get())
                try:
                    tm.commit()
                except UndoError:
                    tm.abort()
                    trace.append(k + '-refused')
                    if not quiescent('after-refused-undo'):
                        return None
                    continue
                tid = st.lastTransaction()
                # model, newest undone transaction first: a blob written by an undone transaction goes back to the revision before
                # it; that is only possible when the undone revision is the blob's newest one not yet undone, or when the newer
                # ones hold the same bytes - otherwise the undo had to be refused (the records of all revisions of a blob are
                # alike, the bytes are in the files)
                by_oid = {}
                for name, oid in oid_of.items():
                    by_oid.setdefault(oid, []).append(name)     # (a blob attached again under a new key has had two names)
                for oid, its_names in sorted(by_oid.items()):
                    name = its_names[-1]
                    revs = sorted(t for (o, t) in content_at if o == oid)
                    cur = revs[-1] if revs else None
                    touched = False
                    for utid in utids:
                        if utid not in revs:
                            continue
                        if cur != utid and content_at[(oid, cur)] != content_at[(oid, utid)] \
                                and content_at[(oid, cur)] is not None and content_at[(oid, utid)] is not None:
                            sh.violation('c13:%s:undo-of-a-blob-change-accepted-although-a-later-transaction-rewrote-the-blob' % kind,
                                         {'name': name, 'trace': trace[-20:], 'undone': utid, 'later': cur, 'op': k}, case)
                            return None
                        prev = [t for t in revs if t < utid]
                        cur = prev[-1] if prev else None
                        touched = True
                        if cur is None:
                            break
                    if touched:
                        val = content_at[(oid, cur)] if cur is not None else None
                        content_at[(oid, tid)] = val          # (None = un-creation marker)
                        for nm_ in its_names:
                            if len(its_names) == 1 or committed.get(nm_) is not None:
                                committed[nm_] = val
                # blobs re-created by undoing an undo of their creation
                tm.begin()
                for name in list(oid_of):
                    if name not in c.root() and len(by_oid[oid_of[name]]) > 1:
                        committed[name] = None        # the undone transaction had attached the blob under this key
                    if committed.get(name) is None and name in c.root():
                        try:
                            with c.root()[name].open('r') as f:
                                committed[name] = f.read()
                        except POSKeyError:
                            # undo works record by record: undoing the transaction that removed the reference, after the
                            # blob's creation was undone too, leaves a reference to an object that does not exist (an
                            # accepted limitation of undo, also met under C07).  The history ends here without a verdict.
                            sh.count('histories_ended_by_an_undo_that_left_a_dangling_reference')
                            tm.abort()
                            return None
                        prior = [t_ for (o_, t_) in content_at if o_ == oid_of[name]]
                        if not prior or content_at[(oid_of[name], max(prior))] is None:
                            content_at[(oid_of[name], tid)] = committed[name]         # the blob itself was re-created
                        # (else only the reference came back - the undo of an unlink: the blob has no record in this transaction)
                        if name not in names:
                            names.append(name)
                names[:] = [n for n in names if committed.get(n) is not None]
                tm.abort()
                sh.count('undos')
                if k == 'undo2':
                    sh.count('multiple_undos')
                feats.add('undo')
                trace.append(k)
                if not quiescent('after-undo') or not second_connection('after-undo'):
                    return None
            elif k == 'relink' and not pending and kind == 'file' and [n for n in names if committed.get(n) is not None]:
                # a blob becomes garbage (its only reference is removed and that committed) while the program keeps the Blob
                # object; later the program writes to it and attaches it again.  A pack to a time in between removes the
                # revisions from before (the object was garbage then) and must keep the file of the revision written afterwards.
                tm.abort()
                del sp_stack[:]
                name = rnd.choice(sorted(n for n in names if committed.get(n) is not None))
                tm.begin()
                bobj = c.root()[name]
                del c.root()[name]
                tm.commit()
                U = st.lastTransaction()
                committed[name] = None
                names.remove(name)
                trace.append('unlink(%s)' % name)
                if not quiescent('after-unlink') or not second_connection('after-unlink'):
                    return None
                uid[0] += 1
                nm = 'b%d' % uid[0]
                data = newbytes()
                tm.begin()
                with bobj.open('w') as f:
                    f.write(data)
                c.root()[nm] = bobj
                del bobj
                pending[nm] = data
                names.append(nm)
                tm.commit()
                after_commit()
                trace.append('relink-rewritten(%s as %s)' % (name, nm))
                sh.count('garbage_blobs_written_and_attached_again')
                extra_pack_tids.append(U)
                garbage_windows.append((oid_of[nm], U, st.lastTransaction()))
                if not quiescent('after-relink') or not second_connection('after-relink'):
                    return None
            elif k == 'pack' and not pending:
                tm.abort()
                del sp_stack[:]
                tids = sorted({t for (o, t) in content_at} | set(extra_pack_tids))
                if extra_pack_tids and rnd.random() < 0.5:
                    tids = [extra_pack_tids[-1]]
                if not tids:
                    continue
                T = rnd.choice(tids)
                before = set(blob_files(blob_dir))
                try:
                    db.pack(TimeStamp(T).timeTime() + 0.0005)
                except ValueError as e:
                    if 'Already packed' in str(e):      # packing to an earlier time may be refused (C07)
                        sh.count('earlier_pack_refused')
                        continue
                    sh.violation('c13:%s:pack-raises-ValueError' % kind, {'exc': repr(e)[:200], 'trace': trace[-20:]}, case)
                    return None
                except Exception as e:
                    sh.violation('c13:%s:pack-raises-%s' % (kind, type(e).__name__), {'exc': repr(e)[:200], 'trace': trace[-20:]}, case)
                    return None
                sh.count('packs')
                trace.append('pack')
                for (goid, gu, gr) in garbage_windows:
                    if gu <= T < gr:
                        # the blob was garbage at the pack time: its revisions from before are gone, records and files
                        for key in [k_ for k_ in content_at if k_[0] == goid and k_[1] <= T]:
                            del content_at[key]
                packed_T[0] = max(packed_T[0] or T, T)
                if set(blob_files(blob_dir)) != before:
                    feats.add('pack-removed')
                if kind == 'file':
                    import shutil
                    shutil.rmtree(blob_dir + '.old', ignore_errors=True)
                if not quiescent('after-pack') or not second_connection('after-pack'):
                    return None
                if any(gu <= T for (goid, gu, gr) in garbage_windows):
                    # a blob was garbage for a while before this pack time: what undo does afterwards with the transactions
                    # around that window belongs to the pack-GC family recorded under C07 (records a later undo needs are
                    # gone); the history ends here, with the verdicts up to and including this pack
                    sh.count('histories_ended_after_a_pack_behind_a_garbage_window')
                    break
                # every revision still listed must still open
        tm.abort()
        after_abort()
        if not quiescent('final'):
            return None
    finally:
        LOG.enabled = False
        LOG.fault = None
        try:
            tm.abort()
        except Exception:
            pass
        c.close()
        db.close()
    sh.note('storage_kinds', kind)
    nt = ('failed' in feats or 'abort' in feats) and ('undo' in feats or 'pack-removed' in feats)
    return (digest(kind, trace) if nt else None, {'seed': s, 'kind': kind, 'trace': trace[:30]})


def crafted(sh, d, case):
    """deterministic scenarios: the known blob-wrapper pack finding, and (regression, fixed by b982a9a) savepoint blob files"""
    import ZODB
    import ZODB.MappingStorage
    import ZODB.blob
    import transaction
    from ZODB.blob import Blob
    from persistent.TimeStamp import TimeStamp
    from zv import recfs, clock, objs
    FSM = recfs.install()
    recfs.LOG.enabled = False
    clock.install(clock.FakeClock())
    kind = case['kind']
    blob_dir = os.path.join(d, 'blobs')
    st = (FSM.FileStorage(os.path.join(d, 'Data.fs'), blob_dir=blob_dir) if kind == 'file'
          else ZODB.blob.BlobStorage(blob_dir, FSM.FileStorage(os.path.join(d, 'Data.fs'))) if kind == 'blobwrap-file'
          else ZODB.blob.BlobStorage(blob_dir, ZODB.MappingStorage.MappingStorage()))
    if case['crafted'] in ('pack-after-multiple-undo-leaving-the-blob-uncreated', 'pack-after-garbage-blob-written-and-attached-again',
                           'pack-after-multiple-undo-whose-last-record-a-later-undo-points-to'):
        # two regression scenarios for the packer's choice of blob files to remove (FileStorage with a blob directory):
        #  - a multiple undo re-creates a blob and un-creates it again within one transaction: the file copied for the transient
        #    revision belongs to a record the pack removes, so the pack removes it too;
        #  - a blob is unlinked (garbage at the pack time), then written and attached again by the program that kept the object: the
        #    pack removes the revisions from before the pack time, not the directory with the file of the later revision
        import glob
        db = ZODB.DB(st)
        tm = transaction.TransactionManager()
        c = db.open(tm)

        def files():
            return sorted(os.path.basename(p) for p in glob.glob(os.path.join(blob_dir, '0x*', '*', '*', '*', '*', '*', '*', '*', '*.blob')))

        def blob_revisions():
            out = []
            it = st.iterator()
            for tx in it:
                for r in tx:
                    if r.data is not None and objs.decode_record(r.data)[0] is Blob:
                        out.append('0x' + tx.tid.hex() + '.blob')
            it.close()
            return sorted(out)
        tm.begin()
        c.root()['b'] = b = Blob(b'one')
        tm.commit()
        if case['crafted'] == 'pack-after-multiple-undo-whose-last-record-a-later-undo-points-to':
            #  - a multiple undo writes two records of the blob in one transaction (one file); a later transaction supersedes
            #    them before the pack time and its undo, after the pack time, points back to the second: the pack drops the
            #    first record and must keep the file the second one shares with it
            def rewrite(data):
                tm.begin()
                with c.root()['b'].open('w') as f:
                    f.write(data)
                tm.commit()
            del b
            rewrite(b'two')
            db.undo(db.undoInfo(0, 1)[0]['id'], tm.get())
            tm.commit()                                          # back to 'one'
            db.undoMultiple([x['id'] for x in db.undoInfo(0, 2)], tm.get())
            tm.commit()                                          # 'two' and 'one' again, two records in one transaction
            rewrite(b'three')
            T = st.lastTransaction()
            db.undo(db.undoInfo(0, 1)[0]['id'], tm.get())        # after the pack time: points back to the second of the two records
            tm.commit()
            want = b'one'
        elif case['crafted'].startswith('pack-after-multiple'):
            del b
            ids = [x['id'] for x in db.undoInfo(0, 1)]
            db.undo(ids[0], tm.get())
            tm.commit()                                          # the creation is undone
            ids = [x['id'] for x in db.undoInfo(0, 2)]
            db.undoMultiple(ids, tm.get())
            tm.commit()                                          # re-created and un-created again in one transaction
            db.undo(db.undoInfo(0, 1)[0]['id'], tm.get())
            tm.commit()
            T = st.lastTransaction()
            db.undo(db.undoInfo(0, 1)[0]['id'], tm.get())        # after the pack time: its records point back into that transaction
            tm.commit()
            want = None
        else:
            tm.begin()
            del c.root()['b']
            tm.commit()
            T = st.lastTransaction()
            with b.open('w') as f:
                f.write(b'two')
            c.root()['b'] = b
            tm.commit()
            want = b'two'
        tm.begin()
        c.root()['x'] = 1
        tm.commit()
        db.pack(TimeStamp(T).timeTime() + 0.0005)
        sh.count('crafted_blob_pack_scenarios')
        if files() != blob_revisions():
            sh.violation('c13:file:pack:blob-files-differ-from-the-blob-revisions-kept:%s' % case['crafted'],
                         {'files': files(), 'revisions': blob_revisions()}, case)
        elif want is not None:
            c2 = db.open(transaction.TransactionManager())
            try:
                with c2.root()['b'].open('r') as f:
                    if f.read() != want:
                        sh.violation('c13:file:pack:kept-blob-reads-other-bytes', {}, case)
            except POSKeyError as e:
                sh.violation('c13:file:pack:kept-blob-unreadable', {'exc': repr(e)[:100]}, case)
            c2.close()
        c.close()
        db.close()
        return
    if case['crafted'] == 'undo-of-overwritten-blob-change':
        # regression scenario for fix fd9c662, also on the blob wrapper over a FileStorage without blob directory of its own (that
        # configuration is outside the statement's quantifier and not part of the generated histories): T1 A, T2 B, T3 C; undoing T2
        # must be refused and change nothing; undoing T3 then T2 works
        from ZODB.POSException import UndoError
        db = ZODB.DB(st)
        tm = transaction.TransactionManager()
        c = db.open(tm)
        for data in (b'A', b'B', b'C'):
            tm.begin()
            if 'b' not in c.root():
                c.root()['b'] = Blob()
            with c.root()['b'].open('w') as f:
                f.write(data)
            tm.get().note('write %s' % data.decode())
            tm.commit()
        ids = {str(x['description']): x['id'] for x in db.undoInfo(0, 10)}
        last = st.lastTransaction()
        tm.begin()
        db.undo(ids['write B'], tm.get())
        try:
            tm.commit()
            accepted = True
        except UndoError:
            tm.abort()
            accepted = False
        tm.begin()
        with c.root()['b'].open('r') as f:
            got = f.read()
        tm.abort()
        if accepted or got != b'C' or st.lastTransaction() != last:
            sh.violation('c13:%s:undo-of-a-blob-change-accepted-although-a-later-transaction-rewrote-the-blob' % kind,
                         {'crafted': True, 'accepted': accepted, 'blob': got}, case)
        tm.begin()
        db.undoMultiple([ids['write C'], ids['write B']], tm.get())
        tm.commit()
        tm.begin()
        with c.root()['b'].open('r') as f:
            got = f.read()
        tm.abort()
        if got != b'A':
            sh.violation('c13:%s:blob-bytes-after-undo-differ' % kind, {'crafted': True, 'blob': got}, case)
        sh.count('crafted_blob_undo_scenarios')
        c.close()
        db.close()
        return
    db = ZODB.DB(st)
    tm = transaction.TransactionManager()
    c = db.open(tm)
    tm.begin()
    c.root()['b'] = Blob(b'revision A')
    tm.commit()
    sh.count('quiescent_checks')
    if case['crafted'] == 'savepoint-overwrite':
        tm.begin()
        with c.root()['b'].open('w') as f:
            f.write(b'bytes at savepoint 0')
        sp0 = tm.savepoint()
        with c.root()['b'].open('w') as f:
            f.write(b'bytes at savepoint 1')
        tm.savepoint()
        sp0.rollback()
        with c.root()['b'].open('r') as f:
            got = f.read()
        tm.abort()
        if got != b'bytes at savepoint 0':
            sh.violation('c13:%s:blob-bytes-after-rollback-differ-from-savepoint:blob-stored-again-by-a-later-savepoint' % kind,
                         {'crafted': True, 'got': got}, case)
        # second sequence: the savepoint rolled back to holds nothing of the blob - the committed bytes must come back
        tm.begin()
        spa = tm.savepoint()
        with c.root()['b'].open('w') as f:
            f.write(b'bytes at a later savepoint')
        tm.savepoint()
        spa.rollback()
        with c.root()['b'].open('r') as f:
            got = f.read()
        tm.abort()
        if got != b'revision A':
            sh.violation('c13:%s:blob-bytes-after-rollback-differ-from-savepoint:file-of-a-rolled-back-savepoint-still-used' % kind,
                         {'crafted': True, 'got': got}, case)
        sh.count('crafted_savepoint_blob_scenarios')
    else:
        t1 = st.lastTransaction()
        for data in (b'revision B', b'revision C'):
            tm.begin()
            with c.root()['b'].open('w') as f:
                f.write(data)
            tm.commit()
        db.pack(TimeStamp(t1).timeTime() + 0.0005)
        it = st.iterator()
        missing = []
        for t in it:
            for r in t:
                if r.data is not None and objs.decode_record(r.data)[0] is Blob:
                    if not os.path.exists(st.fshelper.getBlobFilename(r.oid, t.tid)):
                        missing.append((r.oid, t.tid))
        if hasattr(it, 'close'):
            it.close()
        if missing:
            sh.violation('c13:%s:committed-blob-revision-without-file' % kind, {'crafted': True, 'n': len(missing)}, case)
    c.close()
    db.close()


def run_shard(params):
    logging.disable(logging.CRITICAL)
    sh = Shard(params)
    if params.get('shard', 0) < 2:
        # fixed regression scenario (known finding until fix b982a9a)
        ccase = {'crafted': 'savepoint-overwrite', 'kind': ('file', 'blobwrap')[params.get('shard', 0)]}
        guarded(sh, 'c13', ccase, lambda: crafted(sh, sh.fresh_dir('c13'), ccase))
    elif params.get('shard', 0) < 4:
        ccase = {'crafted': 'undo-of-overwritten-blob-change', 'kind': ('file', 'blobwrap-file')[params.get('shard', 0) - 2]}
        guarded(sh, 'c13', ccase, lambda: crafted(sh, sh.fresh_dir('c13'), ccase))
    elif params.get('shard', 0) < 7:
        ccase = {'crafted': ('pack-after-multiple-undo-leaving-the-blob-uncreated', 'pack-after-garbage-blob-written-and-attached-again',
                             'pack-after-multiple-undo-whose-last-record-a-later-undo-points-to')[params.get('shard', 0) - 4],
                 'kind': 'file'}
        guarded(sh, 'c13', ccase, lambda: crafted(sh, sh.fresh_dir('c13'), ccase))
    for i in case_indices(params):
        if not sh.time_left():
            break
        s = case_seed(params, i)
        case = {'seed': s}
        d = sh.fresh_dir('c13')
        r = guarded(sh, 'c13', case, lambda: run_case(sh, s, d, case))
        if r:
            sh.case(r[0], r[1])
        else:
            sh.case(None)
    return sh.result()


def replay(case, scratch):
    logging.disable(logging.CRITICAL)
    sh = Shard({'scratch': scratch})
    if case.get('crafted'):
        guarded(sh, 'c13', case, lambda: crafted(sh, sh.fresh_dir('c13'), case))
        return sh.violations
    guarded(sh, 'c13', case, lambda: run_case(sh, case['seed'], sh.fresh_dir('c13'), case))
    return sh.violations
