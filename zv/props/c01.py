"""C01  Committed transactions survive a crash at any point; unfinished ones vanish.

Record every raw write/truncate/rename/fsync of a generated FileStorage history (RecFS),
rebuild every crash state (op-log prefix x torn byte cuts), reopen it with the real
FileStorage and compare with the model prefix that the returned commits dictate.
"""
import logging
import os
import random
import shutil

from zv.harness import Shard, split, case_indices, case_seed, digest, guarded

ID = 'C01'
LEVEL = 'fault_enumeration'
ENGINE = 'RecFS+Crash'
TECHNIQUE = ('crash-point enumeration at runtime: recorded raw-write log of real FileStorage histories, every prefix and '
             'torn byte cut materialised and reopened with the real code, compared with the history model; online '
             'fsync-before-return ordering monitor')
RULE = ('histories of store/multi/big(70-140kB)/empty/abort-before-vote/abort-after-vote/undo/multi-undo/deleteObject/restore/'
        'close+reopen on FileStorage under RecFS; crash states = every op-log prefix + byte-prefix cuts of every write to '
        'Data.fs/.index/.index_tmp (quick: first 48 + last 24 bytes + 6 random cuts of each write; thorough: every byte of '
        'every write <= 4 KiB, 150+ cuts of larger ones). Per state: RW open must succeed, iterator dump + loads + '
        'lastTransaction == model after nF or nF+1 commits (nF = commits returned before the cut), a follow-up commit '
        'must succeed and survive a second reopen, reopening twice is idempotent. evaluations = distinct directory images '
        'reopened; distinct_nontrivial = those whose cut lies strictly inside a transaction\'s write sequence '
        '(after tpc_begin, before finish returned) or inside an index save.')
LEVEL_TEXT = ('All crash points of each generated history under the property\'s own crash model (prefix of issued low-level '
              'ops with torn single writes) are enumerated and decided by reopening with the real code; exhaustive per '
              'history for writes <= 4 KiB in the thorough tier, sampled over histories. The fsync rule is checked on every commit.')
LEVEL_NOTE = ('Crash model = ordered prefix + torn write (no reordering of un-fsynced writes across ops: fsync ordering is '
              'checked separately). Trusts CPython io buffering, zc.lockfile and the model.')
ASSUMPTIONS = ['crash model: prefix of issued raw ops + byte-prefix of one write; renames atomic',
               'a commit whose tpc_finish has not returned may or may not survive (nF or nF+1)']
REQUIRED_COUNTERS = ('crash_states_reopened', 'finish_markers_checked_for_fsync', 'followup_commits')
EXHAUSTIVE = {'quick': False, 'thorough': False}

OPS = ['store'] * 4 + ['multi'] * 2 + ['undo'] * 2 + ['undo2', 'delete', 'restore', 'reopen', 'empty', 'abort', 'abort', 'resolved', 'resolved']


def shards(tier, seed):
    return split(tier, seed, 600, 20000, 40, 1200)


def record_history(s, d, nops, big):
    from zv import recfs, clock
    from zv.driver import Driver
    rnd = random.Random(s)
    FSM = recfs.install()
    LOG = recfs.LOG
    LOG.reset()
    LOG.enabled = False
    clock.install(clock.FakeClock())
    path = os.path.join(d, 'Data.fs')
    fs = FSM.FileStorage(path)
    pre = rnd.randrange(0, 3)
    from zv.driver import model_resolver
    dr = Driver(fs, rnd, kind='file', log=LOG, big=big, resolver=model_resolver)
    dr.mix_classes = rnd.random() < 0.5
    factory = lambda: FSM.FileStorage(path)
    for _ in range(pre):                       # unrecorded prefix: history started from an existing file
        dr.step(['store', 'store', 'multi', 'undo'], factory)
    if pre and rnd.random() < 0.5:
        dr.op_reopen(factory)
    files0 = recfs.snapshot_dir(d)
    base = len(dr.specs_after) - 1
    LOG.enabled = True
    del LOG.ops[:]
    for _ in range(nops):
        dr.step(OPS, factory)
    LOG.enabled = False
    dr.st.close()
    ops = list(LOG.ops)
    return FSM, files0, ops, dr, base


def fsync_monitor(sh, ops, case):
    dirty = False
    for op in ops:
        if op[0] in ('write', 'truncate') and op[1].endswith('Data.fs'):
            dirty = True
        elif op[0] == 'fsync' and str(op[1]).endswith('Data.fs'):
            dirty = False
        elif op[0] == 'mark' and op[1] == 'finish_ret':
            sh.count('finish_markers_checked_for_fsync')
            if dirty:
                sh.violation('c01:commit-returned-before-fsync', {'marker': op}, case)
                return False
    return True


def check_state(sh, FSM, tag, images, info, specs_after, base, d, scratch, case, full):
    from zv.crash import materialise
    from zv.spec import real_dump, battery
    from zv import objs
    from ZODB.Connection import TransactionMetaData
    from ZODB.utils import p64, z64
    materialise(images, d, scratch)
    path = os.path.join(scratch, 'Data.fs')
    nF = info.get('finish_ret', base)      # markers carry the absolute commit count
    sh.count('crash_states_reopened')
    wit = {'tag': tag, 'nF': nF, 'last_marker': info.get('last')}
    if sh.counters.get('crash_states_reopened', 0) % 3 == 0:
        # every third crash state is first opened read-only (a backup tool, a replica): same prefix, nothing unfinished
        sh.count('crash_states_opened_read_only_first')
        try:
            ro = FSM.FileStorage(path, read_only=True)
            try:
                got_ro = real_dump(ro)
            finally:
                ro.close()
        except Exception as e:
            sh.violation('c01:read-only-reopen-raises-%s' % type(e).__name__, dict(wit, exc=repr(e)[:300]), dict(case, tag=tag))
            return
        if not any(n < len(specs_after) and got_ro == specs_after[n].dump() for n in (nF, nF + 1)):
            ntx = len(got_ro[0])
            kind = ('committed-transaction-lost' if ntx < nF else
                    'unfinished-transaction-visible' if ntx > nF + 1 or ntx > len(specs_after) - 1 else 'state-differs')
            sh.violation('c01:read-only-reopen:%s' % kind, dict(wit, real_txns=ntx, model_txns=[nF, nF + 1]), dict(case, tag=tag))
            return
    try:
        fs = FSM.FileStorage(path)
    except Exception as e:
        sh.violation('c01:reopen-raises-%s' % type(e).__name__, dict(wit, exc=repr(e)[:300]), dict(case, tag=tag))
        return
    try:
        got = real_dump(fs)
        match = None
        for n in (nF, nF + 1):
            if n < len(specs_after) and got == specs_after[n].dump():
                match = n
        if match is None:
            m2 = [n for n in (nF, nF + 1) if n < len(specs_after) and got[:2] == specs_after[n].dump()[:2]]
            if m2:
                sh.violation('c01:lastTransaction-names-truncated-transaction',
                             dict(wit, got=got[2], model=specs_after[m2[0]].dump()[2]), dict(case, tag=tag))
            else:
                ntx = len(got[0])
                kind = 'committed-transaction-lost' if ntx < nF else ('unfinished-transaction-visible' if ntx > nF + 1 or ntx > len(specs_after) - 1 else 'state-differs')
                sh.violation('c01:%s' % kind, dict(wit, real_txns=ntx, model_txns=[nF, nF + 1]), dict(case, tag=tag))
            return
        spec = specs_after[match]
        if full:
            n, df = battery(fs, spec, 'file', counter=sh.count)
            if df:
                sh.violation('c01:battery-differs-after-crash-reopen', dict(wit, first=df[0]), dict(case, tag=tag))
                return
        # follow-up commit
        t = TransactionMetaData(b'after', b'crash')
        data = objs.cell_record('after-crash')
        oid = p64(0x77)
        cur = spec.current(oid)
        fs.tpc_begin(t)
        fs.store(oid, cur[0] if cur else z64, data, '', t)
        fs.tpc_vote(t)
        tid = fs.tpc_finish(t)
        sh.count('followup_commits')
        if fs.load(oid) != (data, tid) or not (tid > spec.last_tid()):
            sh.violation('c01:followup-commit-wrong', dict(wit), dict(case, tag=tag))
            return
        fs.close()
        trs = sorted(f for f in os.listdir(scratch) if '.tr' in f)
        fs = FSM.FileStorage(path)
        got2 = real_dump(fs)
        exp_it, exp_cur, _ = spec.dump()
        if got2[0][:-1] != exp_it or got2[0][-1][0] != tid or got2[2] != tid:
            sh.violation('c01:second-reopen-differs', dict(wit), dict(case, tag=tag))
            return
        if sorted(f for f in os.listdir(scratch) if '.tr' in f) != trs:
            sh.violation('c01:second-reopen-truncates-again', dict(wit), dict(case, tag=tag))
    except Exception as e:
        sh.violation('c01:check-raises-%s' % type(e).__name__, dict(wit, exc=repr(e)[:300]), dict(case, tag=tag))
    finally:
        try:
            fs.close()
        except Exception:
            pass


def run_history(sh, s, tier, case, only_tag=None):
    from zv.crash import CrashEnum
    rnd = random.Random(s ^ 0x5a5a)
    d = sh.fresh_dir('hist')
    scratch = os.path.join(sh.scratch, 'crash')
    thorough = tier == 'thorough'
    nops = rnd.choice([4, 6, 8, 10]) if not thorough else rnd.choice([6, 10, 16, 24])
    FSM, files0, ops, dr, base = record_history(s, d, nops, big=rnd.random() < 0.35)
    sh.count('raw_ops_recorded', len(ops))
    sh.count('commits_in_histories', dr.ncommit)
    if not fsync_monitor(sh, ops, case):
        return dr
    torn = lambda p: p.endswith('Data.fs') or p.endswith('.index') or p.endswith('.index_tmp')
    ce = CrashEnum(files0, ops, torn, thorough, rnd)
    n = 0
    for tag, images, info in ce:
        if only_tag is not None and list(tag) != list(only_tag):
            continue
        n += 1
        full = thorough and (n % 40 == 0)
        before = len(sh.violations)
        check_state(sh, FSM, tag, images, info, dr.specs_after, base, d, scratch, case, full)
        nt = digest(s, tag) if info['inside'] else None
        sh.case(nt, None)
        if not sh.time_left() and only_tag is None:
            sh.count('histories_cut_short_by_budget')
            break
    shutil.rmtree(scratch, ignore_errors=True)
    for f in dr.features:
        sh.note('features', f.split('-len-')[0])
    return dr


def run_shard(params):
    logging.disable(logging.CRITICAL)
    sh = Shard(params)
    for i in case_indices(params):
        if not sh.time_left():
            break
        s = case_seed(params, i)
        case = {'seed': s, 'tier': params['tier']}
        dr = guarded(sh, 'c01', case, lambda: run_history(sh, s, params['tier'], case))
        sh.count('histories')
        if dr is not None and len(sh.samples) < 2:
            sh.samples.append({'seed': s, 'trace': dr.trace, 'commits': dr.ncommit})
    return sh.result()


def replay(case, scratch):
    logging.disable(logging.CRITICAL)
    sh = Shard({'scratch': scratch, 'budget_s': 600})
    guarded(sh, 'c01', case, lambda: run_history(sh, case['seed'], case.get('tier', 'quick'), case, only_tag=case.get('tag')))
    return sh.violations
