"""C10  Conflict resolution stores exactly the class's three-way merge."""
import logging
import os
import random

from zv.harness import Shard, split, case_indices, case_seed, digest, guarded

ID = 'C10'
LEVEL = 'exploration'
ENGINE = 'Spec'
TECHNIQUE = ('runtime monitoring of conflicting commits on the real storages: the class resolver is wrapped to log its three arguments, '
             'the stored revision is decoded with an independent unpickler and compared with the merge recomputed by the model from '
             'the three states the history dictates; refusal paths are checked for ConflictError + unchanged observation')
RULE = ('DB level: chains of 2-4 connections that start from one snapshot of objects of resolvable classes (additive Counter, '
        'set-union USet holding a persistent reference, MaxReg) and unresolvable ones (Plain, Raiser raising ValueError/ConflictError), '
        'each modifies and commits in random order on FileStorage, DemoStorage(mapping) and DemoStorage(file changes); model = '
        'resolve(state the writer started from, state now committed, state the writer wants). Checks: resolver log arguments == '
        'model states, stored record (independently decoded, references by oid+format) == model merge, writer\'s object is a ghost '
        'after commit and reads the merged state with the commit tid, losers of unresolvable conflicts get ConflictError and the '
        'storage observation is unchanged. Storage level: hand-built records with every reference format ((oid,class), bare oid, '
        '[w], [w,db], [m], [n], legacy str oids; pickle protocols 1-3), missing classes, stale-serial stores. Non-trivial = '
        'distinct cases with at least one resolved conflict whose three states were pairwise different.')
LEVEL_TEXT = ('Held on generated conflict chains: every resolved conflict\'s stored bytes were decoded independently and compared with '
              'the merge recomputed from the model\'s three states; every refused conflict left the observation unchanged. Not a proof.')
LEVEL_NOTE = ('Resolvers are pure functions re-implemented in the model (zv/driver.model_resolver). MappingStorage alone offers no '
              'resolution (always ConflictError) and is used as a refusal case. Undo-path merges are covered by C06.')
ASSUMPTIONS = ['class resolvers in zv/objs.py are deterministic pure functions']
REQUIRED_COUNTERS = ('conflicts_resolved', 'conflicts_refused', 'resolver_log_entries_checked', 'stored_merges_decoded', 'storage_level_cases')


def shards(tier, seed):
    return split(tier, seed, 20000, 800000, 40, 900)


def mkstorage(kind, d, FSM):
    import ZODB.MappingStorage
    import ZODB.DemoStorage
    if kind == 'file':
        return FSM.FileStorage(os.path.join(d, 'Data.fs'))
    if kind == 'demo':
        return ZODB.DemoStorage.DemoStorage()
    if kind == 'demo-file':
        return ZODB.DemoStorage.DemoStorage(base=ZODB.MappingStorage.MappingStorage(), changes=FSM.FileStorage(os.path.join(d, 'Ch.fs')))
    if kind == 'mapping':
        return ZODB.MappingStorage.MappingStorage()


def db_case(sh, s, d, case):
    import ZODB
    import ZODB.DemoStorage
    import transaction
    from zv import recfs, clock, objs
    from zv.observe import observe, first_diff
    from ZODB.POSException import ConflictError
    rnd = random.Random(s)
    FSM = recfs.install()
    recfs.LOG.enabled = False
    clock.install(clock.FakeClock())
    ZODB.DemoStorage.random = random.Random(s)
    kind = rnd.choice(['file', 'file', 'demo', 'demo-file', 'mapping'])
    st = mkstorage(kind, d, FSM)
    db = ZODB.DB(st)
    classes = {'counter': objs.Counter, 'uset': objs.USet, 'maxreg': objs.MaxReg, 'plain': objs.Plain, 'raiser': objs.Raiser}
    with db.transaction() as c:
        r = c.root()
        r['target'] = objs.Cell('ref target')
        r['other'] = objs.Cell('other target')
        for k, cls in classes.items():
            r[k] = cls()
    resolved = refused = 0
    nontrivial = False
    trace = []
    for rounds in range(rnd.choice([1, 2, 3])):
        which = rnd.choice(list(classes))
        n = rnd.choice([2, 2, 3, 4])
        tms = [transaction.TransactionManager() for _ in range(n)]
        conns = [db.open(tm) for tm in tms]
        # all writers start from the same snapshot
        objs_ = []
        for tm, c in zip(tms, conns):
            tm.begin()
            o = c.root()[which]
            o._p_activate()
            objs_.append(o)
        start = dict(objs_[0].__dict__)
        committed = dict(start)          # model: state now committed (attribute dict, refs as python objects)
        order = list(range(n))
        rnd.shuffle(order)
        for wi in order:
            o = objs_[wi]
            c = conns[wi]
            want = dict(start)
            # a savepoint before or after the change: the commit then stores everything through the savepoint storage and the
            # object is up to date, not changed, when the vote reports the merge
            sp_at = rnd.choice([None, None, None, 'before', 'after'])
            if sp_at == 'before':
                tms[wi].savepoint()
                sh.count('writers_with_a_savepoint')
            if which == 'counter':
                delta = rnd.randrange(1, 50)
                o.value += delta
                want['value'] = start['value'] + delta
            elif which == 'uset':
                add = sorted(rnd.sample(range(30), rnd.randrange(1, 4)))
                o.items = sorted(set(o.items) | set(add))
                want['items'] = sorted(set(start['items']) | set(add))
                if rnd.random() < 0.5:
                    tgt = rnd.choice(['target', 'other'])
                    o.ref = c.root()[tgt]
                    want['ref'] = tgt
            elif which == 'maxreg':
                v = rnd.randrange(100)
                o.value = v
                want['value'] = v
            elif which == 'plain':
                o.tok = 't%d' % rnd.randrange(1000)
                want['tok'] = o.tok
            elif which == 'raiser':
                o.value = rnd.randrange(100)
                want['value'] = o.value
            if sp_at == 'after':
                tms[wi].savepoint()
                sh.count('writers_with_a_savepoint')
            first = committed == start and wi == order[0]
            is_conflict = wi != order[0]
            del objs.RESOLVER_LOG[:]
            before = observe(st, full=False, undolog=False) if is_conflict else None
            try:
                tms[wi].commit()
                ok = True
            except ConflictError:
                ok = False
                tms[wi].abort()
            # model verdict
            if not is_conflict:
                exp_ok, merged = True, want
            elif kind == 'mapping' or which in ('plain', 'raiser'):
                exp_ok, merged = False, None
            else:
                exp_ok = True
                merged = dict(want)
                if which == 'counter':
                    merged['value'] = committed['value'] + want['value'] - start['value']
                elif which == 'uset':
                    merged['items'] = sorted(set(committed['items']) | set(want['items']))
                elif which == 'maxreg':
                    merged = dict(committed)
                    merged['value'] = max(committed['value'], want['value'])
            wit = {'kind': kind, 'class': which, 'writers': n, 'writer_index': order.index(wi), 'trace': trace}
            if ok != exp_ok:
                sh.violation('c10:%s:%s' % (kind, 'conflicting-commit-accepted-without-resolver' if ok else 'resolvable-conflict-refused'),
                             dict(wit, start=start_repr(start), committed=start_repr(committed), want=start_repr(want)), case)
                return None
            if is_conflict and not ok:
                refused += 1
                sh.count('conflicts_refused')
                df = first_diff(observe(st, full=False, undolog=False), before)
                if df:
                    sh.violation('c10:%s:refused-conflict-changed-the-storage' % kind, dict(wit, diff=df), case)
                    return None
                trace.append('%s:refused' % which)
                continue
            if is_conflict:
                resolved += 1
                sh.count('conflicts_resolved')
                if len({repr(start_repr(x)) for x in (start, committed, want)}) == 3:
                    nontrivial = True
                # resolver log: exactly one call with the model's three states
                log = list(objs.RESOLVER_LOG)
                sh.count('resolver_log_entries_checked', len(log))
                if len(log) != 1:
                    sh.violation('c10:%s:resolver-called-%d-times' % (kind, len(log)), wit, case)
                    return None
                _, lo, lc, ln = log[0]
                for name, got, exp in (('old', lo, start), ('committed', lc, committed), ('new', ln, want)):
                    if plain_fields(got) != plain_fields(exp):
                        sh.violation('c10:%s:resolver-argument-%s-differs-from-model' % (kind, name),
                                     dict(wit, got=plain_fields(got), model=plain_fields(exp)), case)
                        return None
                # writer's object: ghost, then merged state and commit tid
                if o._p_changed is not None:
                    sh.violation('c10:%s:writer-object-not-ghost-after-resolved-commit' % kind, wit, case)
                    return None
            # stored record == merged (independent decode)
            data, serial = st.load(o._p_oid)
            meta, state, refs = objs.decode_record(data)
            sh.count('stored_merges_decoded')
            exp_state = dict(merged)
            if 'ref' in exp_state and isinstance(exp_state['ref'], str):
                exp_state['ref'] = objs.Ref(conns[wi].root()[exp_state['ref']]._p_oid, 'tuple')
            elif 'ref' in exp_state and exp_state['ref'] is not None and not isinstance(exp_state['ref'], objs.Ref):
                exp_state['ref'] = objs.Ref(exp_state['ref']._p_oid, 'tuple')
            if meta is not classes[which] or state != exp_state:
                sh.violation('c10:%s:stored-state-differs-from-class-merge' % kind,
                             dict(wit, stored=start_repr(state), model=start_repr(exp_state), conflict=is_conflict), case)
                return None
            tms[wi].begin()
            conns[wi].root()[which]._p_activate()
            now = dict(conns[wi].root()[which].__dict__)
            if plain_fields(now) != plain_fields(merged) or conns[wi].root()[which]._p_serial != serial:
                sh.violation('c10:%s:writer-does-not-read-merged-state' % kind, dict(wit, read=plain_fields(now), model=plain_fields(merged)), case)
                return None
            tms[wi].abort()
            committed = dict(merged)
            if 'ref' in committed and not isinstance(committed['ref'], (str, type(None))):
                # normalise to the name used by the model
                for nm in ('target', 'other'):
                    if committed['ref']._p_oid == conns[wi].root()[nm]._p_oid:
                        committed['ref'] = nm
                        break
            trace.append('%s:%s' % (which, 'resolved' if is_conflict else 'first'))
        for c in conns:
            c.close()
    if kind in ('file', 'demo-file') and rnd.random() < 0.6:
        # a stale writer whose conflict is with an *undo*: the committed record is the data-less record the undo wrote
        form = rnd.choice(['undo-of-change', 'undo-of-change', 'undo-of-creation'])
        tma, tmw = transaction.TransactionManager(), transaction.TransactionManager()
        ca, cw = db.open(tma), db.open(tmw)
        tma.begin()
        if form == 'undo-of-creation':
            ca.root()['fresh'] = objs.Counter()
            ca.root()['fresh'].value = 5
            name = 'fresh'
        else:
            ca.root()['counter'].value += rnd.randrange(1, 50)
            name = 'counter'
        tma.get().note('to be undone %d' % s)
        tma.commit()
        tmw.begin()
        ow = cw.root()[name]
        start_v = ow.value
        uid_ = [x['id'] for x in db.undoInfo(0, 3) if str(x['description']).startswith('to be undone')][0]
        tma.begin()
        db.undo(uid_, tma.get())
        tma.commit()
        tma.begin()
        committed_v = ca.root()['counter'].value if form == 'undo-of-change' else None
        tma.abort()
        delta = rnd.randrange(1, 50)
        ow.value += delta
        del objs.RESOLVER_LOG[:]
        before = observe(st, full=False, undolog=False)
        try:
            tmw.commit()
            ok = True
        except ConflictError:
            ok = False
            tmw.abort()
        wit = {'kind': kind, 'form': form, 'trace': trace}
        sh.count('conflicts_with_an_undo_record')
        if form == 'undo-of-creation':
            if ok or first_diff(observe(st, full=False, undolog=False), before):
                sh.violation('c10:%s:write-to-an-object-whose-creation-was-undone-%s' % (kind, 'accepted' if ok else 'changed-the-storage'), wit, case)
                return None
        else:
            log = [(lo['value'], lc['value'], ln['value']) for (_, lo, lc, ln) in objs.RESOLVER_LOG]
            want = (start_v, committed_v, start_v + delta)
            if not ok:
                sh.violation('c10:%s:resolvable-conflict-refused' % kind, dict(wit, want=want), case)
                return None
            if log != [want]:
                sh.violation('c10:%s:resolver-arguments-differ-from-model:conflict-with-an-undo-record' % kind, dict(wit, got=log, model=[want]), case)
                return None
            data, serial = st.load(ow._p_oid)
            if objs.decode_record(data)[1].get('value') != committed_v + delta:
                sh.violation('c10:%s:stored-state-differs-from-class-merge' % kind,
                             dict(wit, stored=objs.decode_record(data)[1].get('value'), model=committed_v + delta, undo_record=True), case)
                return None
            resolved += 1
        trace.append('conflict-with-%s' % form)
        ca.close()
        cw.close()
    db.close()
    sh.note('storage_kinds', kind)
    return (digest('db', kind, trace, s) if nontrivial else None, {'seed': s, 'kind': kind, 'trace': trace})


def start_repr(d):
    return {k: (v if isinstance(v, (int, str, list, type(None))) else repr(v)[:40]) for k, v in d.items()}


def plain_fields(d):
    return {k: v for k, v in d.items() if isinstance(v, (int, str, list, type(None))) and k != 'ref'}


def storage_case(sh, s, d, case):
    """hand-built records: every reference format, protocols, missing classes"""
    from zv import recfs, clock, objs
    from zv.driver import model_resolver
    from zv.observe import observe, first_diff
    from ZODB.Connection import TransactionMetaData
    from ZODB.POSException import ConflictError
    from ZODB.utils import p64, z64
    import ZODB.DemoStorage
    rnd = random.Random(s)
    FSM = recfs.install()
    recfs.LOG.enabled = False
    clock.install(clock.FakeClock())
    ZODB.DemoStorage.random = random.Random(s)
    kind = rnd.choice(['file', 'file', 'demo', 'demo-file'])
    st = mkstorage(kind, d, FSM)
    oid = p64(rnd.choice([1, 7, 0x10000]))
    fmts = ['tuple', 'oid', 'w', 'wdb', 'm', 'n']
    proto = rnd.choice([1, 2, 3])
    legacy = rnd.random() < 0.2
    grnd = random.Random(s + 21)

    def ref():
        f = rnd.choice(fmts + (['tuple-str', 'oid-str'] * 2 if legacy else []))
        # a legacy str oid only occurs when all its bytes are < 0x80
        o = p64(rnd.randrange(1, 128) if f.endswith('-str') else rnd.randrange(1, 300))
        # (the class named by a reference may not be importable where conflicts are resolved)
        gone = f in ('tuple', 'm') and grnd.random() < 0.35
        if gone:
            sh.count('references_naming_an_unimportable_class')
        return objs.Ref(o, f, cls=objs.GoneRef if gone else None, dbname='otherdb' if f in ('wdb', 'm', 'n') else None)
    cls = rnd.choice([objs.Counter, objs.USet, objs.MaxReg, objs.Plain, objs.Raiser, 'missing'])

    def state(i):
        base = {'note': 'n%d' % i, 'r1': ref(), 'rs': [ref() for _ in range(rnd.randrange(0, 3))]}
        if cls is objs.USet:
            base['items'] = sorted(rnd.sample(range(20), rnd.randrange(0, 4)))
            base['ref'] = ref()
        else:
            base['value'] = rnd.randrange(100)
        return base

    def rec(stt):
        if cls == 'missing':
            import zodbpickle.pickle as zp
            import io
            f = io.BytesIO()
            p = zp.Pickler(f, proto)
            p.persistent_id = objs._pid
            # class meta as a (module, name) tuple naming a module that does not exist
            with objs.gone_module():
                p.dump((('zv_no_such_module', 'Gone'), None))
                p.dump(stt)
            return f.getvalue()
        return objs.make_record(cls, stt, protocol=proto)

    def commit(data, serial):
        t = TransactionMetaData(b'', b'c10')
        st.tpc_begin(t)
        try:
            st.store(oid, serial, data, '', t)
            res = st.tpc_vote(t)
            tid = st.tpc_finish(t)
            return tid, res
        except Exception:
            st.tpc_abort(t)
            raise
    s_old, s_com, s_new = state(0), state(1), state(2)
    d_old, d_com, d_new = rec(s_old), rec(s_com), rec(s_new)
    t_old, _ = commit(d_old, z64)
    t_com, _ = commit(d_com, t_old)
    sh.count('storage_level_cases')
    before = observe(st, full=False, undolog=False)
    del objs.RESOLVER_LOG[:]
    exp = model_resolver(oid, d_old, d_com, d_new) if cls != 'missing' else None
    if cls is objs.Raiser or cls is objs.Plain:
        exp = None
    wit = {'kind': kind, 'class': getattr(cls, '__name__', cls), 'protocol': proto, 'legacy_str_oids': legacy}
    try:
        tid, res = commit(d_new, t_old)
        ok = True
    except ConflictError:
        ok = False
    if ok != (exp is not None):
        sh.violation('c10:%s:storage-level:%s' % (kind, 'conflicting-store-accepted-without-resolver' if ok else 'resolvable-conflict-refused'), wit, case)
        return None
    if not ok:
        sh.count('conflicts_refused')
        df = first_diff(observe(st, full=False, undolog=False), before)
        if df:
            sh.violation('c10:%s:storage-level:refused-conflict-changed-the-storage' % kind, dict(wit, diff=df), case)
        st.close()
        return (None, {'seed': s, 'kind': kind, 'class': wit['class'], 'what': 'storage-level refused'})
    sh.count('conflicts_resolved')
    if oid not in (res or []):
        sh.violation('c10:%s:storage-level:vote-does-not-report-resolved-oid' % kind, dict(wit, vote=res), case)
        return None
    data, serial = st.load(oid)
    sh.count('stored_merges_decoded')
    meta, stt, refs = objs.decode_record(data)
    if not exp.matches(data) or serial != tid:
        sh.violation('c10:%s:storage-level:stored-state-differs-from-class-merge' % kind,
                     dict(wit, stored=start_repr(stt), model=start_repr(exp.state)), case)
        return None
    st.close()
    return (digest('st', kind, wit['class'], proto, s), {'seed': s, 'kind': kind, 'class': wit['class'], 'what': 'storage-level resolved',
                                                          'ref_formats': sorted({r.fmt for r in refs})})


def packed_base_case(sh, s, d, case):
    """the revision a stale writer started from has been packed away (demo storage over a FileStorage base that holds an older
    revision of the object; file or memory changes; also a plain FileStorage): there is nothing to merge with - the commit must
    be refused with a ConflictError, the resolver not called, nothing stored"""
    import ZODB
    import ZODB.DemoStorage
    import ZODB.MappingStorage
    import transaction
    from zv import recfs, clock, objs
    from zv.observe import observe, first_diff
    from ZODB.POSException import ConflictError
    rnd = random.Random(s)
    FSM = recfs.install()
    recfs.LOG.enabled = False
    clk = clock.install(clock.FakeClock())
    ZODB.DemoStorage.random = random.Random(s)
    kind = rnd.choice(['demo(file,memory)', 'demo(file,file)', 'demo(demo(file,memory),memory)', 'file'])
    base = FSM.FileStorage(os.path.join(d, 'Base.fs'))
    db = ZODB.DB(base)
    with db.transaction() as c:
        c.root()['counter'] = objs.Counter()
        c.root()['counter'].value = rnd.randrange(0, 5)
    if kind == 'file':
        st = base
    else:
        db.close()
        base = FSM.FileStorage(os.path.join(d, 'Base.fs'))
        st = ZODB.DemoStorage.DemoStorage(base=base, changes=FSM.FileStorage(os.path.join(d, 'Ch.fs')) if kind == 'demo(file,file)' else None)
        if kind.startswith('demo(demo'):
            st = st.push()
        db = ZODB.DB(st)
    tms = [transaction.TransactionManager() for _ in range(3)]
    cs = [db.open(tm) for tm in tms]
    tms[0].begin()
    cs[0].root()['counter'].value += rnd.randrange(1, 9)          # T1: the revision the stale writer will start from
    tms[0].commit()
    tms[1].begin()
    w = cs[1].root()['counter']
    w.value += 100                                                # stale writer W, transaction kept open
    tms[2].begin()
    cs[2].root()['counter'].value += 10                           # T2
    tms[2].commit()
    try:
        db.pack(clk.now + 10)                                      # drops T1
    except Exception as e:
        sh.note('pack_exceptions_in_packed_base_case', type(e).__name__)
    del objs.RESOLVER_LOG[:]
    before = observe(st, full=False, undolog=False)
    sh.count('stale_writers_whose_base_revision_was_packed_away')
    try:
        tms[1].commit()
        ok = True
    except ConflictError:
        ok = False
        tms[1].abort()
    wit = {'kind': kind, 'resolver_calls': [(lo.get('value'), lc.get('value'), ln.get('value')) for (_, lo, lc, ln) in objs.RESOLVER_LOG]}
    if ok:
        sh.violation('c10:%s:commit-accepted-although-the-writers-base-revision-no-longer-exists' % kind, wit, case)
    elif first_diff(observe(st, full=False, undolog=False), before):
        sh.violation('c10:%s:refused-conflict-changed-the-storage' % kind, wit, case)
    for c in cs:
        c.close()
    db.close()
    return None


def run_shard(params):
    logging.disable(logging.CRITICAL)
    sh = Shard(params)
    for i in case_indices(params):
        if not sh.time_left():
            break
        s = case_seed(params, i)
        which = 'storage' if i % 2 else 'db'
        if i % 20 == 7:
            which = 'packed-base'
        case = {'seed': s, 'which': which}
        d = sh.fresh_dir('c10')
        r = guarded(sh, 'c10', case, lambda: {'storage': storage_case, 'db': db_case, 'packed-base': packed_base_case}[which](sh, s, d, case))
        if r:
            sh.case(r[0], r[1])
        else:
            sh.case(None)
    return sh.result()


def replay(case, scratch):
    logging.disable(logging.CRITICAL)
    sh = Shard({'scratch': scratch})
    guarded(sh, 'c10', case, lambda: {'storage': storage_case, 'db': db_case, 'packed-base': packed_base_case}[case['which']](sh, case['seed'], sh.fresh_dir('c10'), case))
    return sh.violations
