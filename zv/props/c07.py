"""C07  Packing never changes what is observable at or after the pack time."""
import logging
import os
import random
import shutil

from zv.harness import Shard, split, case_indices, case_seed, digest, guarded

ID = 'C07'
LEVEL = 'exploration'
ENGINE = 'Spec'
TECHNIQUE = ('differential runtime monitoring around the real pack: reachable-closure snapshot views, revision loads, '
             'post-pack-time transaction lists and undo outcomes recorded before the pack and compared after it (and after reopen), '
             'for every pack time of generated graph+undo histories; idempotence by byte comparison')
RULE = ('graph histories through the Connection API (create, link, unlink, modify, cycles, unreachable garbage, undo incl. undo of '
        'creation/unlink, across the pack time) on FileStorage (gc on/off), MappingStorage and DemoStorage; every pack time '
        '(before the first, just after each transaction). Before the pack, for every snapshot s in {T+1, each later tid+1, maxtid}: '
        'closure from the root via loadBefore(oid, s) using an independent reference decoder. After the pack and after reopen: the '
        'same closures must load identically (data, serial, end tid), loadSerial of every revision seen, post-T transactions '
        'identical in iterator and undoLog, undo of sampled post-T transactions gives the same result on packed and unpacked '
        'copies, a second pack at T and at an earlier time leaves the file byte-identical, an empty storage packs to nothing. '
        'One case in four is a storage-level history (2-3 objects; store, undo, 2- and 3-transaction undo in one transaction - several '
        'records of one object in one transaction -, delete) packed without gc at every boundary: every load of every object at '
        'every snapshot above T, post-T transactions, undo log and undo outcomes compared with the unpacked file. '
        'evaluations = packs executed; distinct_nontrivial = distinct (history, T, gc) whose pack freed bytes and had at least '
        'one transaction after T.')
LEVEL_TEXT = ('Held on the generated histories x all their pack times: everything the statement makes observable at or after T is '
              'recorded before the pack and compared after it. Not a proof; sampled over histories.')
LEVEL_NOTE = ('Reference = the unpacked storage (vouched for by C04). Histories never re-link garbage by a plain store (no verdict '
              'there); a gc pack refusing because a dangling reference exists at/after T is accepted. Trusts own reference decoder.')
ASSUMPTIONS = ['unpacked storage answers are the reference', 'gc pack may refuse when a dangling reference (left by undo of a creation) exists']
REQUIRED_COUNTERS = ('packs', 'packs_that_freed_bytes', 'snapshot_views_compared', 'post_T_undo_comparisons', 'idempotence_checks')


def shards(tier, seed):
    return split(tier, seed, 1600, 48000, 45, 900)


def view(st, s, strong_refs):
    """reachable closure at snapshot s: {oid: (data, serial, end) | 'POSKeyError' | None}"""
    from ZODB.POSException import POSKeyError
    from ZODB.utils import z64
    out = {}
    todo = [z64]
    while todo:
        oid = todo.pop()
        if oid in out:
            continue
        try:
            r = st.loadBefore(oid, s)
        except POSKeyError:
            out[oid] = 'POSKeyError'
            continue
        if r is None:
            out[oid] = None
            continue
        out[oid] = r
        todo.extend(strong_refs(r[0]))
    return out


def txn_list(st, after):
    from zv.spec import txn_canon
    from ZODB.utils import p64, u64
    it = st.iterator(p64(u64(after) + 1))
    out = [txn_canon(t) for t in it]
    if hasattr(it, 'close'):
        it.close()
    return out


def make_storage(kind, path, FSM, gc=True):
    import ZODB.MappingStorage
    import ZODB.DemoStorage
    if kind == 'file':
        return FSM.FileStorage(path, pack_gc=gc)
    if kind == 'mapping':
        return ZODB.MappingStorage.MappingStorage()
    if kind == 'demo':
        return ZODB.DemoStorage.DemoStorage()
    raise ValueError(kind)


def build_history(kind, s, d, FSM, nops):
    import ZODB
    import ZODB.DemoStorage
    from zv import clock, graphgen
    clock.install(clock.FakeClock())
    rnd = random.Random(s)
    ZODB.DemoStorage.random = random.Random(s + 17)      # DemoStorage draws its oids from `random`: make rebuilds identical
    st = make_storage(kind, os.path.join(d, 'Data.fs'), FSM)
    db = ZODB.DB(st)
    trace = graphgen.build(db, rnd, nops, ops=(graphgen.OPS_G if s % 3 == 0 else graphgen.OPS), can_undo=(kind == 'file'))
    return db, st, trace


def undo_outcome(FSM, path, tid, strong_refs):
    """undo `tid` on the file at path (a scratch copy): -> ('refused',) | ('ok', closure at maxtid, records)"""
    import base64
    from ZODB.Connection import TransactionMetaData
    from ZODB.POSException import UndoError
    from ZODB.utils import maxtid
    fs = FSM.FileStorage(path)
    try:
        t = TransactionMetaData(b'', b'probe undo')
        fs.tpc_begin(t)
        try:
            fs.undo(base64.encodebytes(tid).rstrip(), t)
        except UndoError:
            fs.tpc_abort(t)
            return ('refused',)
        fs.tpc_vote(t)
        ntid = fs.tpc_finish(t)
        it = fs.iterator(ntid, ntid)
        recs = [(r.oid, r.data) for tx in it for r in tx]
        it.close()
        v = view(fs, maxtid, strong_refs)
        # only what is reachable from the root is compared (records of never-reachable garbage may differ: the
        # statement's observable clause is about reachable objects)
        return ('ok', {o: (x if not isinstance(x, tuple) else (x[0], x[1] == ntid, x[2])) for o, x in v.items()})
    finally:
        fs.close()


def has_dangling(views):
    return any(x == 'POSKeyError' or x is None for v in views.values() for x in v.values())


def run_case(sh, s, tier, d, case, only=None, prebuilt=None):
    from zv import recfs, clock
    from zv.objs import strong_refs
    from ZODB.serialize import referencesf
    from ZODB.utils import p64, u64, z64, maxtid
    from ZODB.POSException import POSKeyError
    from persistent.TimeStamp import TimeStamp
    rnd = random.Random(s ^ 0x77)
    FSM = recfs.install()
    recfs.LOG.enabled = False
    kind = rnd.choice(['file'] * 7 + ['mapping', 'mapping', 'demo'])
    nops = rnd.choice([6, 9, 12] if tier == 'quick' else [8, 12, 18])
    src = os.path.join(d, 'Data.fs')
    if prebuilt is not None:
        # a fixed witness history kept as a data file under /verif/witnesses
        kind, trace, db = 'file', ['(witness file %s)' % os.path.basename(prebuilt)], None
        shutil.copy(prebuilt, src)
        st = FSM.FileStorage(src, read_only=True)
    else:
        db, st, trace = build_history(kind, s, d, FSM, nops)
    it = st.iterator()
    tids = [t.tid for t in it]
    if hasattr(it, 'close'):
        it.close()
    if kind == 'file':
        (db or st).close()
        ref = FSM.FileStorage(src, read_only=True)
    else:
        ref = st
    sh.note('storage_kinds', kind)
    try:
        packtimes = [(-1, p64(u64(tids[0]) - 1))] + [(i, t) for i, t in enumerate(tids)]
        allviews = {}

        def views_from(T, refst=None, extra=()):
            pts = [p64(u64(t) + 1) for t in tids if t >= T] + list(extra) + [maxtid]
            if u64(T) + 1 not in [u64(p) for p in pts]:
                pts.insert(0, p64(u64(T) + 1))
            out = {}
            for p in pts:
                if refst is not None:
                    out[p] = view(refst, p, strong_refs)
                    continue
                if p not in allviews:
                    allviews[p] = view(ref, p, strong_refs)
                out[p] = allviews[p]
            return out
        # a transaction committed by "another thread" while the pack is between its lock-free first phase and its final phase
        # under the commit lock (the harness commits it from a wrapper around the packer's first phase: no lock is held there).
        # The reference for such a pack is the unpacked file with the same transaction (same explicit id) committed to it.
        # (its id lies 5 s after the last transaction: later than every pack time tried, as the id of a commit made during a pack is)
        import time as _t
        _mt = TimeStamp(tids[-1]).timeTime() + 5.0
        M_tid = TimeStamp(*_t.gmtime(_mt)[:5] + (_mt % 60,)).raw()

        def commit_M(stg):
            from ZODB.Connection import TransactionMetaData
            t = TransactionMetaData()
            t.description = 'committed while the pack ran'
            stg.tpc_begin(t, M_tid, ' ')
            data, serial = stg.load(z64)
            stg.store(z64, serial, data, '', t)
            stg.tpc_vote(t)
            stg.tpc_finish(t)
        src0, ref0, ref2 = src, ref, None
        variants = [(ti, T, gc, mid) for (ti, T) in packtimes for gc in ((True, False) if kind == 'file' else (True,))
                    for mid in ((False, True) if kind == 'file' else (False,))]
        for (ti, T, gc, mid) in variants:
            if True:
                if only is not None and [ti, gc] + ([True] if mid else []) != list(only):
                    continue
                if mid and only is None and not (ti == len(tids) - 1 or (s + ti + int(gc)) % 4 == 0):
                    continue
                if not sh.time_left() and only is None:
                    return trace
                wit = {'kind': kind, 'pack_after_txn': ti, 'gc': gc, 'trace': trace}
                c2 = dict(case, only=[ti, gc] + ([True] if mid else []))
                src, ref = src0, ref0
                if mid:
                    wit['commit_during_the_pack'] = True
                    if ref2 is None:
                        r2 = os.path.join(d, 'r2')
                        shutil.rmtree(r2, ignore_errors=True)
                        os.makedirs(r2)
                        shutil.copy(src0, os.path.join(r2, 'Data.fs'))
                        tmp = FSM.FileStorage(os.path.join(r2, 'Data.fs'))
                        commit_M(tmp)
                        tmp.close()
                        ref2 = FSM.FileStorage(os.path.join(r2, 'Data.fs'), read_only=True)
                    src, ref = os.path.join(d, 'r2', 'Data.fs'), ref2
                    before = views_from(T, ref2, [p64(u64(M_tid) + 1)])
                    sh.count('packs_with_a_commit_between_their_phases')
                else:
                    before = views_from(T)
                post_before = txn_list(ref, T)
                ptime = TimeStamp(T).timeTime() + 0.0005
                # --- pack a copy
                if kind == 'file':
                    w = os.path.join(d, 'w')
                    shutil.rmtree(w, ignore_errors=True)
                    os.makedirs(w)
                    shutil.copy(src0, os.path.join(w, 'Data.fs'))
                    wpath = os.path.join(w, 'Data.fs')
                    tgt = FSM.FileStorage(wpath, pack_gc=gc)
                    undolog_before = [x for x in (ref2 if mid else tgt).undoLog(0, -1000)]
                else:
                    d2 = os.path.join(d, 'h2')
                    shutil.rmtree(d2, ignore_errors=True)
                    os.makedirs(d2)
                    db2, tgt, _ = build_history(kind, s, d2, FSM, nops)
                    wpath = None
                size_before = tgt.getSize()
                sh.count('packs')
                fired = []
                try:
                    if mid:
                        from ZODB.FileStorage import fspack
                        orig_phase1 = fspack.FileStoragePacker.copyToPacktime

                        def phase1(self_):
                            r_ = orig_phase1(self_)
                            fired.append(1)
                            commit_M(tgt)
                            return r_
                        fspack.FileStoragePacker.copyToPacktime = phase1
                        try:
                            tgt.pack(ptime, referencesf)
                        finally:
                            fspack.FileStoragePacker.copyToPacktime = orig_phase1
                        if not fired:
                            commit_M(tgt)           # the pack did not get that far (nothing to do): the commit simply follows it
                    else:
                        tgt.pack(ptime, referencesf)
                except Exception as e:
                    if mid and not fired:
                        commit_M(tgt)               # the pack refused before its first phase: the commit simply follows
                    dangling = has_dangling(before)
                    after = {p: view(tgt, p, strong_refs) for p in before}
                    unchanged = after == before
                    tgt.close()
                    if dangling and gc and unchanged and isinstance(e, (KeyError,)):
                        sh.count('gc_refusals_on_dangling_reference')
                        sh.case(None)
                        continue
                    if gc and unchanged and isinstance(e, KeyError) and e.args and isinstance(e.args[0], bytes):
                        # the same refusal when the reference to an object that does not exist at the pack time sits in a revision
                        # that is not current at T but is re-activated by a later undo (the packer walks those too): the statement
                        # does not promise that a pack succeeds, only what it may remove; nothing was removed
                        try:
                            absent = ref.loadBefore(e.args[0], p64(u64(T) + 1)) is None
                        except POSKeyError:
                            absent = True
                        if absent:
                            sh.count('gc_refusals_on_reference_to_an_object_absent_at_the_pack_time')
                            sh.case(None)
                            continue
                    sh.violation('c07:%s:pack-raises-%s%s' % (kind, type(e).__name__, '' if unchanged else '-and-state-changed'),
                                 dict(wit, exc=repr(e)[:200], gc=gc, dangling=dangling), c2)
                    sh.case(None)
                    continue
                freed = tgt.getSize() < size_before
                if freed:
                    sh.count('packs_that_freed_bytes')
                bad = False
                for reopen in ((False, True) if kind == 'file' else (False,)):
                    if reopen:
                        tgt.close()
                        tgt = FSM.FileStorage(wpath, pack_gc=gc)
                    for p, bv in before.items():
                        av = view(tgt, p, strong_refs)
                        sh.count('snapshot_views_compared')
                        if av != bv:
                            diffs = [o for o in set(bv) | set(av) if bv.get(o) != av.get(o)]
                            o = sorted(diffs)[0]
                            b_, a_ = bv.get(o, 'absent'), av.get(o, 'absent')
                            if a_ == 'POSKeyError' or a_ is None or a_ == 'absent':
                                what = 'reachable-object-missing-after-pack'
                            elif b_ == 'POSKeyError' and isinstance(a_, tuple) and a_[1] <= T:
                                # un-created at the snapshot before the pack, an older revision afterwards
                                what = 'uncreated-object-resurrected-after-pack'
                            else:
                                what = 'different-revision-after-pack'
                            # model feature: was the witness object unreachable at T?
                            unreach_at_T = o not in before[min(before)] and what != 'uncreated-object-resurrected-after-pack'
                            sh.violation('c07:%s:%s%s' % (kind, what, ':object-unreachable-at-T-relinked-later' if unreach_at_T else ''),
                                         dict(wit, oid=o, snapshot=p, reopen=reopen,
                                              before=b_ if not isinstance(b_, tuple) else (b_[1], b_[2]),
                                              after=a_ if not isinstance(a_, tuple) else (a_[1], a_[2])), c2)
                            bad = True
                            break
                        for o, x in bv.items():
                            if isinstance(x, tuple):
                                try:
                                    ok = tgt.loadSerial(o, x[1]) == x[0]
                                except POSKeyError:
                                    ok = False
                                if not ok:
                                    sh.violation('c07:%s:loadSerial-of-kept-revision-fails' % kind, dict(wit, oid=o, serial=x[1]), c2)
                                    bad = True
                                    break
                        if bad:
                            break
                    if bad:
                        break
                    # snapshots older than the pack time: a reader there may find its revision gone (it gets a retryable
                    # conflict error), but whatever it is given must be what it was given before the pack
                    # (packs without gc only: with gc the recorded pack-GC family - an object unreachable at T whose older revision a
                    # later undo names - also shows up here, as a reader below T being given that older revision)
                    if kind == 'file' and not bad and not gc:
                        for t_old in [t for t in tids if t < T][-4:]:
                            p_old = p64(u64(t_old) + 1)
                            if p_old not in allviews:
                                allviews[p_old] = view(ref, p_old, strong_refs)
                            for o, x in allviews[p_old].items():
                                if not isinstance(x, tuple):
                                    continue
                                try:
                                    y = tgt.loadBefore(o, p_old)
                                except POSKeyError:
                                    y = None
                                sh.count('older_snapshot_loads_compared')
                                if y is not None and y[:2] != x[:2]:
                                    sh.violation('c07:file:snapshot-older-than-the-pack-time-is-given-another-revision',
                                                 dict(wit, oid=o, snapshot=p_old, reopen=reopen, before=(x[1], x[2]), after=(y[1], y[2])), c2)
                                    bad = True
                                    break
                            if bad:
                                break
                        if bad:
                            break
                    post_after = txn_list(tgt, T)
                    if post_after != post_before:
                        sh.violation('c07:%s:post-T-transactions-differ' % kind,
                                     dict(wit, reopen=reopen, before=[t[0] for t in post_before], after=[t[0] for t in post_after]), c2)
                        bad = True
                        break
                    if kind == 'file':
                        ul = [x for x in tgt.undoLog(0, -1000)]
                        import base64
                        want = [x for x in undolog_before if base64.decodebytes(x['id'] + b'\n') > T]
                        got = [x for x in ul if base64.decodebytes(x['id'] + b'\n') > T]
                        if want != got:
                            sh.violation('c07:file:undoLog-of-post-T-transactions-differs', dict(wit, reopen=reopen), c2)
                            bad = True
                            break
                if kind != 'file':
                    tgt.close()
                    sh.case(digest(s, ti, gc) if freed and post_before else None)
                    continue
                tgt.close()
                if bad:
                    sh.case(None)
                    continue
                # --- undo of post-T transactions: packed vs unpacked
                cands = [t[0] for t in post_before if t[1] == ' ']
                urnd = random.Random(s * 4099 + (ti + 1) * 2 + int(gc))
                for utid in (cands if only is not None else urnd.sample(cands, min(len(cands), 2))):
                    outs = []
                    for srcp in (src, wpath):
                        u = os.path.join(d, 'u')
                        shutil.rmtree(u, ignore_errors=True)
                        os.makedirs(u)
                        shutil.copy(srcp, os.path.join(u, 'Data.fs'))
                        outs.append(undo_outcome(FSM, os.path.join(u, 'Data.fs'), utid, strong_refs))
                    sh.count('post_T_undo_comparisons')
                    if outs[0] != outs[1]:
                        feat = ''
                        if outs[0][0] == outs[1][0] == 'ok':
                            dif = sorted(o for o in set(outs[0][1]) | set(outs[1][1]) if outs[0][1].get(o) != outs[1][1].get(o))
                            if dif and all(o not in before[min(before)] for o in dif):
                                feat = ':object-unreachable-at-T-relinked-later'
                        sh.violation('c07:file:undo-of-post-T-transaction-differs-after-pack' + feat,
                                     dict(wit, undone=utid, unpacked=outs[0][0], packed=outs[1][0]), c2)
                        bad = True
                        break
                # --- idempotence: same T again, and an earlier T
                if not bad:
                    with open(wpath, 'rb') as fh:
                        b1 = fh.read()
                    for (lbl, t2) in (('same', ptime), ('earlier', ptime - 1.0)):
                        tgt = FSM.FileStorage(wpath, pack_gc=gc)
                        sh.count('idempotence_checks')
                        try:
                            tgt.pack(t2, referencesf)
                        except Exception as e:
                            sh.note('second_pack_refusals', type(e).__name__)
                        tgt.close()
                        with open(wpath, 'rb') as fh:
                            b2 = fh.read()
                        if b2 != b1:
                            what = classify_second_pack(b1, b2, lbl)
                            if lbl == 'earlier' and gc and what.endswith('-time-changed-the-file'):
                                # model feature: does the earlier pack drop only records of objects that are unreachable from
                                # the root at that earlier time (per the unpacked reference)?
                                import time as _time
                                eff2 = TimeStamp(*_time.gmtime(t2)[:5] + (t2 % 60,)).raw()
                                reach2 = set(view(ref, p64(u64(eff2) + 1), strong_refs))
                                if dropped_oids(b1, b2) and not (dropped_oids(b1, b2) & reach2):
                                    what = 'earlier-time-drops-only-records-of-objects-unreachable-at-that-time'
                            sh.violation('c07:file:second-pack-%s' % what, dict(wit, sizes=(len(b1), len(b2))), c2)
                            break
                sh.case(digest(s, ti, gc, mid) if freed and post_before else None)
    finally:
        try:
            if ref2 is not None:
                ref2.close()
            ref = ref0
            ref.close()
        except Exception:
            pass
        if kind != 'file':
            try:
                db.close()
            except Exception:
                pass
    return trace


def driver_case(sh, s, tier, d, case, only=None):
    """storage-level histories with multiple-undo transactions (several records of one object in one transaction, undo of
    undo, undo of creation, deletions) packed without gc at every transaction boundary: for every object - reachable or not,
    gc is off - every load at a snapshot above the pack time, the post-T transactions, the undo log and the outcome of
    undoing post-T transactions must be the same on the packed copy, also after reopening; a second pack changes nothing"""
    import base64
    import time as _time
    from zv import recfs, clock
    from zv.driver import Driver
    from zv.spec import canon, tid_points
    from ZODB.serialize import referencesf
    from ZODB.Connection import TransactionMetaData
    from ZODB.POSException import UndoError
    from ZODB.utils import p64, u64, maxtid
    from persistent.TimeStamp import TimeStamp
    rnd = random.Random(s ^ 0xd7)
    FSM = recfs.install()
    recfs.LOG.enabled = False
    clock.install(clock.FakeClock())
    src = os.path.join(d, 'Data.fs')
    st = FSM.FileStorage(src)
    dr = Driver(st, rnd, kind='file')
    dr.oids = dr.oids[1:rnd.choice([3, 4])]
    ops = ['store'] * 4 + ['undo'] * 4 + ['undo2'] * 3 + ['undo3', 'multi', 'delete']
    for _ in range(rnd.choice([8, 12, 16] if tier == 'quick' else [12, 18, 26])):
        dr.step(ops, lambda: FSM.FileStorage(src))
    dr.st.close()
    ref = FSM.FileStorage(src, read_only=True)
    it = ref.iterator()
    txs = [(t.tid, [r.oid for r in t]) for t in it]
    it.close()
    tids = [t for t, _ in txs]
    oids = sorted({o for _, os_ in txs for o in os_})
    multi = any(len(os_) != len(set(os_)) for _, os_ in txs)
    sh.note('storage_kinds', 'file:storage-level')

    def norm(x):
        return ('absent',) if x in (('ok', None), ('POSKeyError',)) else x

    def loads(stg, pts):
        out = {}
        for o in oids:
            out[(o, 'cur')] = norm(canon(stg.load, o))
            for p_ in pts:
                out[(o, p_)] = norm(canon(stg.loadBefore, o, p_))
        return out

    def undo_all(path, utid):
        fs = FSM.FileStorage(path)
        try:
            t = TransactionMetaData(b'', b'probe undo')
            fs.tpc_begin(t)
            try:
                fs.undo(base64.encodebytes(utid).rstrip(), t)
            except UndoError:
                fs.tpc_abort(t)
                return ('refused',)
            fs.tpc_vote(t)
            ntid = fs.tpc_finish(t)
            out = {}
            for o in oids:
                x = norm(canon(fs.load, o))
                out[o] = (x[1][0], x[1][1] == ntid) if x[0] == 'ok' else x
            return ('ok', out)
        finally:
            fs.close()
    try:
        for ti, T in enumerate(tids):
            if only is not None and ti != only:
                continue
            if not sh.time_left() and only is None:
                break
            ptime = TimeStamp(T).timeTime() + 0.0005
            eff = TimeStamp(*_time.gmtime(ptime)[:5] + (ptime % 60,)).raw()      # the tid the pack time corresponds to
            pts = [p_ for p_ in tid_points(tids) if p_ > eff]
            before = loads(ref, pts)
            post_before = txn_list(ref, eff)
            wit = {'kind': 'file', 'mode': 'storage-level', 'pack_after_txn': ti, 'gc': False, 'trace': dr.trace}
            c2 = dict(case, only=ti)
            w = os.path.join(d, 'w')
            shutil.rmtree(w, ignore_errors=True)
            os.makedirs(w)
            wpath = os.path.join(w, 'Data.fs')
            shutil.copy(src, wpath)
            tgt = FSM.FileStorage(wpath, pack_gc=False)
            ul_before = [x for x in tgt.undoLog(0, -1000) if base64.decodebytes(x['id'] + b'\n') > eff]
            size_before = tgt.getSize()
            sh.count('packs')
            try:
                tgt.pack(ptime, referencesf)
            except Exception as e:
                tgt.close()
                sh.violation('c07:file:storage-level:pack-raises-%s' % type(e).__name__, dict(wit, exc=repr(e)[:200]), c2)
                sh.case(None)
                continue
            freed = tgt.getSize() < size_before
            if freed:
                sh.count('packs_that_freed_bytes')
            bad = False
            for reopen in (False, True):
                if reopen:
                    tgt.close()
                    tgt = FSM.FileStorage(wpath, pack_gc=False)
                after = loads(tgt, pts)
                sh.count('snapshot_views_compared', len(pts) + 1)
                if after != before:
                    k = sorted(k for k in before if before[k] != after[k])[0]
                    b_, a_ = before[k], after[k]
                    if b_ == ('absent',) and a_[0] == 'ok' and a_[1][1] <= eff:
                        what = 'c07:file:uncreated-object-resurrected-after-pack'
                    elif a_ == ('absent',):
                        what = 'c07:file:storage-level:object-missing-after-pack'
                    else:
                        what = 'c07:file:storage-level:different-revision-after-pack'
                    sh.violation(what, dict(wit, oid=k[0], snapshot=k[1], reopen=reopen, multi_undo_records=multi,
                                            before=b_ if b_[0] != 'ok' else b_[1][1:], after=a_ if a_[0] != 'ok' else a_[1][1:]), c2)
                    bad = True
                    break
                if txn_list(tgt, eff) != post_before:
                    sh.violation('c07:file:storage-level:post-T-transactions-differ', dict(wit, reopen=reopen), c2)
                    bad = True
                    break
                if [x for x in tgt.undoLog(0, -1000) if base64.decodebytes(x['id'] + b'\n') > eff] != ul_before:
                    sh.violation('c07:file:undoLog-of-post-T-transactions-differs', dict(wit, reopen=reopen), c2)
                    bad = True
                    break
            tgt.close()
            if not bad:
                cands = [t[0] for t in post_before if t[1] == ' ']
                urnd = random.Random(s * 4099 + ti)
                for utid in (cands if only is not None else urnd.sample(cands, min(len(cands), 2))):
                    outs = []
                    for srcp in (src, wpath):
                        u = os.path.join(d, 'u')
                        shutil.rmtree(u, ignore_errors=True)
                        os.makedirs(u)
                        shutil.copy(srcp, os.path.join(u, 'Data.fs'))
                        outs.append(undo_all(os.path.join(u, 'Data.fs'), utid))
                    sh.count('post_T_undo_comparisons')
                    if outs[0] != outs[1]:
                        sh.violation('c07:file:storage-level:undo-of-post-T-transaction-differs-after-pack',
                                     dict(wit, undone=utid, unpacked=outs[0][0], packed=outs[1][0]), c2)
                        bad = True
                        break
            if not bad:
                with open(wpath, 'rb') as fh:
                    b1 = fh.read()
                tgt = FSM.FileStorage(wpath, pack_gc=False)
                sh.count('idempotence_checks')
                try:
                    tgt.pack(ptime, referencesf)
                except Exception as e:
                    sh.note('second_pack_refusals', type(e).__name__)
                tgt.close()
                with open(wpath, 'rb') as fh:
                    b2 = fh.read()
                if b2 != b1:
                    sh.violation('c07:file:second-pack-%s' % classify_second_pack(b1, b2, 'same'), dict(wit, sizes=(len(b1), len(b2))), c2)
            sh.case(digest('drv', s, ti) if freed and post_before and multi else None)
    finally:
        ref.close()
    return dr.trace


def dropped_oids(b1, b2):
    """oids of the records present in file image b1 and absent from b2 (independent parse)"""
    from zv.fsparse import parse, canon_txns
    d2 = {t[0]: list(t[5]) for t in canon_txns(b2, parse(b2)[0])}
    out = set()
    for t in canon_txns(b1, parse(b1)[0]):
        rest = d2.get(t[0], [])
        for r in t[5]:
            if r in rest:
                rest.remove(r)
            else:
                out.add(r[0])
    return out


def classify_second_pack(b1, b2, lbl):
    """mechanism of a non-idempotent second pack, from an independent parse of both files"""
    from zv.fsparse import parse, canon_txns
    t1 = canon_txns(b1, parse(b1)[0])
    t2 = canon_txns(b2, parse(b2)[0])
    d2 = {t[0]: t for t in t2}
    only_uncreations = True
    for t in t1:
        o = d2.get(t[0])
        kept = o[5] if o else []
        if (t[:5] != o[:5]) if o else False:
            only_uncreations = False
        rest = list(kept)
        for r in t[5]:
            if r in rest:
                rest.remove(r)
            elif r[1] is not None:
                only_uncreations = False
        if rest:
            only_uncreations = False
    if set(d2) - {t[0] for t in t1}:
        only_uncreations = False
    if only_uncreations:
        return 'drops-uncreation-records-the-first-pack-kept'
    return '%s-time-changed-the-file' % lbl


def empty_pack(sh, d, case):
    """packing an empty database changes nothing"""
    from zv import recfs
    from ZODB.serialize import referencesf
    import ZODB.MappingStorage
    FSM = recfs.install()
    recfs.LOG.enabled = False
    p = os.path.join(d, 'Empty.fs')
    fs = FSM.FileStorage(p)
    fs.pack(1e10, referencesf)
    fs.close()
    with open(p, 'rb') as fh:
        if len(fh.read()) != 4:
            sh.violation('c07:file:pack-of-empty-storage-changed-the-file', {}, case)
    m = ZODB.MappingStorage.MappingStorage()
    m.pack(1e10, referencesf)
    if len(m) != 0:
        sh.violation('c07:mapping:pack-of-empty-storage-changed-it', {}, case)
    sh.count('empty_packs')


def run_shard(params):
    logging.disable(logging.CRITICAL)
    sh = Shard(params)
    guarded(sh, 'c07', {'empty': True}, lambda: empty_pack(sh, sh.fresh_dir('e'), {'empty': True}))
    for i in case_indices(params):
        if not sh.time_left():
            break
        s = case_seed(params, i)
        case = {'seed': s, 'tier': params['tier']}
        d = sh.fresh_dir('c07')
        if i % 4 == 3:
            case['mode'] = 'storage-level'
            tr = guarded(sh, 'c07', case, lambda: driver_case(sh, s, params['tier'], d, case))
        else:
            tr = guarded(sh, 'c07', case, lambda: run_case(sh, s, params['tier'], d, case))
        sh.count('histories')
        if tr is not None and len(sh.samples) < 2:
            sh.samples.append({'seed': s, 'trace': tr})
    return sh.result()


def replay_file(sh, case):
    """fixed witness file under /verif/witnesses: pack twice at the same time, compare bytes"""
    from zv import recfs
    from ZODB.serialize import referencesf
    from persistent.TimeStamp import TimeStamp
    here = os.path.dirname(os.path.dirname(os.path.dirname(os.path.abspath(__file__))))
    FSM = recfs.install()
    recfs.LOG.enabled = False
    d = sh.fresh_dir('wf')
    p = os.path.join(d, 'Data.fs')
    shutil.copy(os.path.join(here, case['data']), p)
    pt = TimeStamp(bytes.fromhex(case['pack_tid'])).timeTime() + 0.0005
    out = []
    for i in range(2):
        fs = FSM.FileStorage(p, pack_gc=case['gc'])
        try:
            fs.pack(pt, referencesf)
        except Exception as e:
            sh.note('second_pack_refusals', type(e).__name__)
        fs.close()
        with open(p, 'rb') as fh:
            out.append(fh.read())
    if out[0] != out[1]:
        sh.violation('c07:file:second-pack-%s' % classify_second_pack(out[0], out[1], 'same'),
                     {'witness': case['data'], 'sizes': (len(out[0]), len(out[1]))}, case)


def replay(case, scratch):
    logging.disable(logging.CRITICAL)
    sh = Shard({'scratch': scratch, 'budget_s': 600})
    if 'data' in case and case.get('mode') == 'views':
        here = os.path.dirname(os.path.dirname(os.path.dirname(os.path.abspath(__file__))))
        guarded(sh, 'c07', case, lambda: run_case(sh, case.get('seed', 0), 'quick', sh.fresh_dir('c07'), case, only=case['only'],
                                                  prebuilt=os.path.join(here, case['data'])))
        return sh.violations
    if 'data' in case:
        guarded(sh, 'c07', case, lambda: replay_file(sh, case))
        return sh.violations
    if case.get('empty'):
        guarded(sh, 'c07', case, lambda: empty_pack(sh, sh.fresh_dir('e'), case))
    elif case.get('mode') == 'storage-level':
        guarded(sh, 'c07', case, lambda: driver_case(sh, case['seed'], case.get('tier', 'quick'), sh.fresh_dir('c07'), case, only=case.get('only')))
    else:
        guarded(sh, 'c07', case, lambda: run_case(sh, case['seed'], case.get('tier', 'quick'), sh.fresh_dir('c07'), case, only=case.get('only')))
    return sh.violations
