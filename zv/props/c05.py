"""C05  A transaction that does not finish leaves no trace and blocks no one."""
import base64
import errno
import hashlib
import logging
import os
import random
import shutil

from zv.harness import Shard, split, case_indices, case_seed, digest, guarded

ID = 'C05'
LEVEL = 'fault_enumeration'
ENGINE = 'RecFS+Spec'
TECHNIQUE = ('fault-site enumeration at runtime: for each victim transaction a fault-free recording yields its protocol steps and raw '
             'file operations; every abort point, every raw op (raise / short write), quota, stale serial, over-long metadata and '
             'foreign-transaction call is then injected into a fresh copy of the same pre-state on the real storage and the '
             'pre-transaction snapshot is compared with the post-failure snapshot')
RULE = ('victim kinds {new, update, multi, big 70-140kB, undo, restore with explicit tid, deleteObject, blob, conflict-resolved store} '
        'after a random prefix history on FileStorage (with blob dir), plus MappingStorage and DemoStorage(mapping / file changes) for '
        'the protocol-level sites. Sites per victim: abort after each protocol step (begin, each store, vote); each raw write/truncate '
        'on Data.fs/.tmp/blob files between begin and vote x {raise ENOSPC, short write}; quota reached at each store; stale serial at '
        'each store position; user/description/extension of 65536 bytes; calls with a foreign transaction object at every phase; '
        'commits through the DB/Connection API failing by over-long metadata, by another participant failing in each phase and by a '
        'conflict (file, demo over file, mapping). '
        'Every site runs on a freshly copied and reopened pre-state, with warm and cold pooled readers probing between fault and '
        'abort. Oracle: data file bytes+size, observation (iterator, loads, lastTransaction, len), getSize, blob directory listing '
        'and hashes equal the pre-transaction snapshot; commit lock free (read from the lock object); a follow-up transaction that '
        'reuses the aborted offsets commits and reads back through the pooled readers; foreign-transaction calls raise '
        'StorageTransactionError (tpc_abort: no effect). evaluations = fault sites executed; distinct_nontrivial = distinct '
        '(victim kind, protocol step / raw-op kind+file, fault kind) sites at which the injected fault actually fired.')
LEVEL_TEXT = ('All fault sites of each generated victim are enumerated from its own recording (exhaustive per victim), sampled over '
              'victims and prefix histories; each verdict comes from comparing snapshots of the real storage.')
LEVEL_NOTE = ('Faults are one-shot (later operations succeed; otherwise no cleanup is possible at all). Failures inside tpc_finish after '
              'the status flip are crashes (C01). .tmp contents and log output are not state.')
ASSUMPTIONS = ['cleanup after a failure = tpc_abort(transaction), as the transaction package does']
REQUIRED_COUNTERS = ('fault_sites', 'faults_fired', 'abort_points', 'raw_op_faults', 'stale_serial_sites', 'quota_sites', 'metadata_sites',
                     'foreign_transaction_calls_rejected', 'followup_commits', 'snapshots_compared', 'db_level_sites')
EXHAUSTIVE = {'quick': False, 'thorough': False}

KINDS = ['new', 'update', 'multi', 'big', 'undo', 'restore', 'delete', 'blob', 'resolved']


def shards(tier, seed):
    return split(tier, seed, 1600, 48000, 45, 900)


def blob_listing(bd):
    out = {}
    if bd and os.path.isdir(bd):
        for root, dirs, files in os.walk(bd):
            for f in files:
                p = os.path.join(root, f)
                if '/tmp/' in p or f.startswith('.'):
                    continue
                with open(p, 'rb') as fh:
                    out[os.path.relpath(p, bd)] = hashlib.sha1(fh.read()).hexdigest()
    return out


def run_victim_file(sh, s, d, case, only=None):
    """one victim on FileStorage: enumerate all its sites"""
    from zv import recfs, clock, objs
    from zv.driver import Driver
    from zv.observe import observe, first_diff
    from ZODB.Connection import TransactionMetaData
    from ZODB.POSException import ConflictError, StorageTransactionError, POSKeyError
    from ZODB.utils import p64, u64, z64
    rnd = random.Random(s)
    FSM = recfs.install()
    LOG = recfs.LOG
    LOG.reset()
    LOG.enabled = False
    clock.install(clock.FakeClock())
    kindv = rnd.choice(KINDS)
    based = os.path.join(d, 'base')
    os.makedirs(based)
    bpath = os.path.join(based, 'Data.fs')
    bdir = os.path.join(based, 'blobs')
    fs = FSM.FileStorage(bpath, blob_dir=bdir)
    from zv.driver import model_resolver
    dr = Driver(fs, rnd, kind='file', resolver=model_resolver)
    dr.mix_classes = True
    dr.oids = dr.oids[1:5]
    for _ in range(rnd.randrange(2, 7)):
        dr.step(['store'] * 4 + ['multi'] * 2 + ['undo', 'delete'])
    # make sure a counter object and a blob exist for the kinds that need them
    cnt_oid = p64(0x51)
    t = TransactionMetaData(b'', b'setup')
    fs.tpc_begin(t)
    fs.store(cnt_oid, z64, objs.make_record(objs.Counter, {'value': 5}), '', t)
    blob_oid = p64(0x52)
    import ZODB.blob
    import zodbpickle.pickle as zp
    blob_rec = zp.dumps(ZODB.blob.Blob, 3) + zp.dumps(None, 3)
    tmpb = os.path.join(fs.temporaryDirectory(), 'setupblob')
    with open(tmpb, 'wb') as f:
        f.write(b'committed blob bytes')
    fs.storeBlob(blob_oid, z64, blob_rec, tmpb, '', t)
    fs.tpc_vote(t)
    tid_setup = fs.tpc_finish(t)
    t = TransactionMetaData(b'', b'setup2')
    fs.tpc_begin(t)
    fs.store(cnt_oid, tid_setup, objs.make_record(objs.Counter, {'value': 9}), '', t)
    fs.tpc_vote(t)
    tid_setup2 = fs.tpc_finish(t)
    from zv.spec import Txn
    dr.spec.txns.append(Txn(tid_setup, ' ', b'', b'setup', b'', [(cnt_oid, b'x'), (blob_oid, blob_rec)]))
    dr.spec.txns.append(Txn(tid_setup2, ' ', b'', b'setup2', b'', [(cnt_oid, b'y')]))
    spec = dr.spec
    fs.close()
    work = os.path.join(d, 'work')
    cold = rnd.random() < 0.5
    state = {'fs': None}

    def fresh(quota=None):
        if state['fs'] is not None:
            try:
                state['fs'].close()
            except Exception:
                pass
        shutil.rmtree(work, ignore_errors=True)
        shutil.copytree(based, work)
        f2 = FSM.FileStorage(os.path.join(work, 'Data.fs'), blob_dir=os.path.join(work, 'blobs'), quota=quota)
        if not cold:
            for o in spec.oids():
                try:
                    f2.load(o)            # warm pooled reader
                except POSKeyError:
                    pass
        state['fs'] = f2
        return f2
    wpath = os.path.join(work, 'Data.fs')
    wblobs = os.path.join(work, 'blobs')
    live = [o for o in spec.oids() if spec.current(o)[1] is not None and o not in (cnt_oid, blob_oid)]
    undoable = [x for x in spec.txns if x.status == ' ' and x.desc not in (b'setup', b'setup2')]
    if kindv in ('update', 'delete') and not live:
        kindv = 'new'
    if kindv == 'undo' and not undoable:
        kindv = 'new'

    # ---- the victim: list of (name, callable(fs, t, stale)) protocol steps
    def make_steps(stale_at=None, meta=None):
        fs = state['fs']
        tmeta = meta or TransactionMetaData(b'user', b'victim', {'k': 1})
        steps = []
        begin_args = ()
        if kindv == 'restore':
            begin_args = (p64(u64(spec.last_tid()) + 777), ' ')
        steps.append(('begin', lambda: fs.tpc_begin(tmeta, *begin_args)))
        vr = random.Random(s + 11)

        def st_store(i, oid, cur, data):
            def f():
                serial = cur
                if stale_at == i:
                    serial = p64(u64(cur) - 1) if cur != z64 else p64(5)
                fs.store(oid, serial, data, '', tmeta)
            return f
        if kindv in ('new', 'update', 'multi', 'big'):
            n = {'multi': vr.choice([2, 3])}.get(kindv, 1)
            pool = list(live) if kindv == 'update' else [p64(0x100 + j) for j in range(n)] + list(live)
            chosen = pool[:n] if kindv != 'multi' else vr.sample(pool, min(n, len(pool)))
            for i, oid in enumerate(chosen):
                cur = spec.current(oid)[0] if spec.current(oid) and spec.current(oid)[1] is not None else z64
                size = vr.choice([70000, 140000]) if kindv == 'big' else vr.randrange(10, 300)
                steps.append(('store', st_store(i, oid, cur, objs.cell_record('victim' + 'v' * size))))
        elif kindv == 'resolved':
            # stale serial on a Counter: resolved by the class, then the txn is aborted/faulted later
            steps.append(('store', lambda: fs.store(cnt_oid, tid_setup, objs.make_record(objs.Counter, {'value': 7}), '', tmeta)))
            steps.append(('store', st_store(1, p64(0x100), z64, objs.cell_record('victim2'))))
        elif kindv == 'undo':
            u = undoable[-1]
            steps.append(('undo', lambda: fs.undo(base64.encodebytes(u.tid).rstrip(), tmeta)))
        elif kindv == 'restore':
            steps.append(('restore', lambda: fs.restore(p64(0x100), begin_args[0], objs.cell_record('restored'), '', None, tmeta)))
            steps.append(('restore', lambda: fs.restore(live[0] if live else p64(0x101), begin_args[0], None, '', None, tmeta)))
        elif kindv == 'delete':
            oid = live[0]
            steps.append(('delete', lambda: fs.deleteObject(oid, spec.current(oid)[0] if stale_at != 0 else p64(5), tmeta)))
        elif kindv == 'blob':
            def sb():
                p = os.path.join(fs.temporaryDirectory(), 'victimblob')
                with open(p, 'wb') as f:
                    f.write(b'victim blob ' * 100)
                fs.storeBlob(blob_oid, tid_setup if stale_at != 0 else p64(5), blob_rec, p, '', tmeta)
            steps.append(('storeBlob', sb))
            steps.append(('store', st_store(1, p64(0x100), z64, objs.cell_record('with blob'))))
        steps.append(('vote', lambda: fs.tpc_vote(tmeta)))
        return tmeta, steps

    def snap():
        fs = state['fs']
        with open(wpath, 'rb') as fh:
            b = fh.read()
        return {'bytes': hashlib.sha1(b).hexdigest(), 'size': len(b), 'obs': observe(fs, full=False, undolog=False),
                'getSize': fs.getSize(), 'blobs': blob_listing(wblobs)}

    def run_site(site):
        """site: dict(kind=..., ...) -> executes one injection on a fresh pre-state; returns whether the fault fired"""
        quota = None
        fs = fresh()
        if site['kind'] == 'quota':
            quota = fs.getSize() + site['extra']
            fs = fresh(quota)
        pre = snap()
        meta = None
        if site['kind'] == 'metadata':
            big = b'm' * 65536
            meta = TransactionMetaData(big if site['field'] == 'user' else b'u', big if site['field'] == 'desc' else b'd',
                                       {'x': 'y' * 70000} if site['field'] == 'ext' else None)
        tmeta, steps = make_steps(stale_at=site.get('stale_at'), meta=meta)
        count = [0]
        fired = [False]

        def fault(op):
            if op[0] in ('write', 'truncate') and ('Data.fs' in op[1] or '/blobs/' in op[1]):
                count[0] += 1
                if site['kind'] == 'raw' and site['how'] == 'persist':
                    # the temporary commit file cannot be written from its k-th write on (disk full) and stays so until
                    # the abort has been attempted
                    if op[1].endswith('.tmp') and (count[0] == site['k'] or fired[0]):
                        if not fired[0]:
                            fired[0] = True
                            fired.append((op[0], 'tmp-persisting'))
                        return ('raise', errno.ENOSPC)
                    return None
                if site['kind'] == 'raw' and count[0] == site['k']:
                    fired[0] = True
                    fired.append((op[0], 'tmp' if op[1].endswith('.tmp') else 'blob' if '/blobs/' in op[1] else 'data'))
                    if site['how'] == 'short' and op[0] == 'write' and len(op[3]) > 1:
                        return ('short', len(op[3]) // 2, errno.ENOSPC)
                    return ('raise', errno.ENOSPC)
            return None
        LOG.reset()
        LOG.fault = fault
        exc = None
        done = 0
        try:
            for i, (name, f) in enumerate(steps):
                if site['kind'] == 'foreign' and site['at'] == i:
                    foreign_calls(fs, name)
                f()
                done += 1
                if site['kind'] == 'abort' and site['after'] == done:
                    fired[0] = True
                    fired.append((name, 'protocol'))
                    break
            else:
                if site['kind'] in ('dry', 'foreign'):
                    pass
        except (OSError, ConflictError) as e:
            exc = e
        except Exception as e:
            from ZODB.FileStorage.FileStorage import FileStorageError
            if isinstance(e, FileStorageError):
                exc = e
            else:
                LOG.fault = None
                LOG.enabled = False
                raise
        finally:
            persisting = site['kind'] == 'raw' and site.get('how') == 'persist' and fired[0]
            if not persisting:
                LOG.fault = None
                LOG.enabled = False
        if persisting:
            # the abort is attempted while the failure lasts (it may fail itself), then once more after it is over, as a
            # transaction manager that logs the first error and a caller that retries would do
            sh.count('aborts_attempted_while_the_write_failure_persists')
            for again in (False, True):
                try:
                    fs.tpc_abort(tmeta)
                except Exception:
                    pass
                LOG.fault = None
                LOG.enabled = False
        if exc is not None and site['kind'] in ('stale', 'quota', 'metadata'):
            fired[0] = True
            fired.append((steps[done][0], type(exc).__name__))
        nraw = count[0]
        if site['kind'] == 'dry':
            fs.tpc_abort(tmeta)
            return nraw, len(steps), pre == snap(), fired
        if site['kind'] == 'foreign':
            # the victim itself must still commit normally
            tid = fs.tpc_finish(tmeta)
            sh.count('victims_committed_after_foreign_calls')
            if fs.lastTransaction() != tid:
                sh.violation('c05:file:commit-after-foreign-calls-wrong', {'victim': kindv}, dict(case, site=site))
            elif kindv == 'blob':
                # ... with everything it stored, the blob file included
                try:
                    with open(fs.loadBlob(blob_oid, tid), 'rb') as bf:
                        gotb = bf.read()
                except Exception as e:
                    gotb = type(e).__name__
                if gotb != b'victim blob ' * 100:
                    sh.violation('c05:file:commit-after-foreign-calls-wrong', {'victim': kindv, 'blob': repr(gotb)[:60]}, dict(case, site=site))
            return nraw, len(steps), True, [True, ('foreign', 'protocol')]
        if exc is None and not fired[0]:
            # nothing failed and no abort point reached: the fault plan did not apply (e.g. k beyond the ops issued)
            fs.tpc_abort(tmeta)
            return nraw, len(steps), True, fired
        # reader probe between failure and abort (pooled readers read ahead into the voted window)
        for o in spec.oids():
            try:
                fs.load(o)
            except POSKeyError:
                pass
        fs.tpc_abort(tmeta)
        wit = {'victim': kindv, 'site': site, 'exc': repr(exc)[:120], 'steps_done': done, 'cold_readers': cold}
        c2 = dict(case, site=site)
        # variant: no read at all between the abort and the first read of the follow-up record (any intermediate read
        # through the pool would refill a stale reader buffer and hide a missing pool flush)
        no_reads = site.get('no_reads')
        post = pre if no_reads else snap()
        sh.count('snapshots_compared' if not no_reads else 'no_read_variants')
        if post != pre:
            what = [k for k in pre if pre[k] != post[k]]
            detail = dict(wit, differs=what)
            if 'obs' in what:
                detail['diff'] = first_diff(post['obs'], pre['obs'])
            if 'blobs' in what:
                detail['blob_files'] = sorted(set(post['blobs']) ^ set(pre['blobs']))[:3]
            sh.violation('c05:file:%s-changed-by-unfinished-transaction' % '+'.join(what), detail, c2)
            return nraw, len(steps), False, fired
        if fs._commit_lock.locked():
            sh.violation('c05:file:commit-lock-held-after-failed-transaction', wit, c2)
            return nraw, len(steps), False, fired
        if fs._transaction is not None:
            sh.violation('c05:file:storage-still-in-transaction-after-abort', wit, c2)
            return nraw, len(steps), False, fired
        if site['kind'] == 'quota':
            return nraw, len(steps), True, fired        # the quota stays in force: a follow-up store would hit it legitimately
        # follow-up commit reusing the aborted offsets; read back through the pooled readers
        t3 = TransactionMetaData(b'', b'follow-up')
        fs.tpc_begin(t3)
        o3 = live[0] if live else p64(0x300)
        d3 = objs.cell_record('follow' + 'f' * 30)
        fs.store(o3, spec.current(o3)[0] if live else z64, d3, '', t3)
        fs.tpc_vote(t3)
        tid3 = fs.tpc_finish(t3)
        sh.count('followup_commits')
        for o in [o3] + [x for x in spec.oids() if x != o3]:
            try:
                got = fs.load(o)
            except POSKeyError:
                got = None
            except Exception as e:
                sh.violation('c05:file:load-raises-%s-after-abort-and-next-commit' % type(e).__name__, dict(wit, oid=o, exc2=repr(e)[:120]), c2)
                return nraw, len(steps), False, fired
            if o == o3:
                ok = got == (d3, tid3)
            else:
                cur = spec.current(o)
                ok = (got is None) if cur[1] is None else (got is not None and got[1] == cur[0])
            if not ok:
                sh.violation('c05:file:stale-or-wrong-load-after-abort-and-next-commit', dict(wit, oid=o), c2)
                return nraw, len(steps), False, fired
        return nraw, len(steps), True, fired

    def foreign_calls(fs, before_step):
        t2 = TransactionMetaData(b'foreign', b'foreign')
        calls = [('store', lambda: fs.store(p64(0x100), z64, objs.cell_record('foreign'), '', t2)),
                 ('tpc_vote', lambda: fs.tpc_vote(t2)),
                 ('tpc_finish', lambda: fs.tpc_finish(t2)),
                 ('deleteObject', lambda: fs.deleteObject(p64(1), z64, t2)),
                 ('restore', lambda: fs.restore(p64(0x100), p64(1), None, '', None, t2)),
                 ('undo', lambda: fs.undo(b'AAAAAAAAAAA=', t2)),
                 ('checkCurrentSerialInTransaction', lambda: fs.checkCurrentSerialInTransaction(p64(1), z64, t2))]
        if before_step == 'begin':
            # no transaction yet: the same calls must be rejected too
            pass
        for name, f in calls:
            try:
                f()
                sh.violation('c05:file:foreign-transaction-%s-accepted' % name, {'before_step': before_step, 'victim': kindv}, case)
            except StorageTransactionError:
                sh.count('foreign_transaction_calls_rejected')
            except Exception as e:
                sh.violation('c05:file:foreign-transaction-%s-raises-%s' % (name, type(e).__name__), {'before_step': before_step}, case)
        fs.tpc_abort(t2)          # must be a no-op
        fs.tpc_abort(transaction=t2)
        sh.count('foreign_transaction_calls_rejected')
    # ---- enumerate
    if only is not None:
        guarded_site(sh, run_site, only, kindv, case)
        if state['fs'] is not None:
            state['fs'].close()
        return kindv
    LOG.enabled = True
    nraw, nsteps, ok, _ = run_site({'kind': 'dry'})
    if not ok:
        sh.violation('c05:file:abort-after-vote-changed-state(dry-run)', {'victim': kindv}, case)
        return kindv
    sites = [{'kind': 'abort', 'after': a} for a in range(1, nsteps + 1)]
    sites += [{'kind': 'abort', 'after': nsteps, 'no_reads': True}]
    sites += [{'kind': 'raw', 'k': k, 'how': 'short', 'no_reads': True} for k in range(max(1, nraw - 3), nraw + 1)]
    sites += [{'kind': 'raw', 'k': k, 'how': how} for k in range(1, nraw + 1) for how in ('raise', 'short')]
    sites += [{'kind': 'raw', 'k': k, 'how': 'persist'} for k in range(1, nraw + 1)]
    nstores = nsteps - 2
    sites += [{'kind': 'stale', 'stale_at': i} for i in range(nstores) if kindv in ('new', 'update', 'multi', 'big', 'delete', 'blob')]
    sites += [{'kind': 'quota', 'extra': e} for e in (1, 60, 300, 5000)]
    sites += [{'kind': 'metadata', 'field': f} for f in ('user', 'desc', 'ext')]
    sites += [{'kind': 'foreign', 'at': i} for i in range(nsteps)]
    for site in sites:
        if not sh.time_left():
            sh.count('victims_cut_short_by_budget')
            break
        LOG.enabled = True
        r = guarded_site(sh, run_site, site, kindv, case)
        sh.count('fault_sites')
        sh.count({'abort': 'abort_points', 'raw': 'raw_op_faults', 'stale': 'stale_serial_sites', 'quota': 'quota_sites',
                  'metadata': 'metadata_sites', 'foreign': 'foreign_sites'}[site['kind']])
        fired = r[3] if r else [False]
        if fired[0]:
            sh.count('faults_fired')
            sh.case(digest(kindv, site['kind'], site.get('how'), fired[1:]), None)
        else:
            sh.case(None)
    if state['fs'] is not None:
        try:
            state['fs'].close()
        except Exception:
            pass
    return kindv


def guarded_site(sh, run_site, site, kindv, case):
    from zv import recfs
    try:
        return run_site(site)
    except Exception as e:
        import traceback
        tb = traceback.extract_tb(e.__traceback__)
        recfs.LOG.fault = None
        recfs.LOG.enabled = False
        sh.violation('c05:file:unexpected-%s-at-fault-site' % type(e).__name__,
                     {'victim': kindv, 'site': site, 'exc': repr(e)[:200],
                      'where': ['%s:%d' % (os.path.basename(f.filename), f.lineno) for f in tb[-4:]]}, dict(case, site=site))
        return None


def run_victim_other(sh, s, d, case):
    """protocol-level sites on MappingStorage and DemoStorage (no raw I/O to fault)"""
    import ZODB.MappingStorage
    import ZODB.DemoStorage
    from zv import recfs, clock, objs
    from zv.driver import Driver
    from zv.observe import observe, first_diff
    from ZODB.Connection import TransactionMetaData
    from ZODB.POSException import ConflictError, StorageTransactionError
    from ZODB.utils import p64, u64, z64
    rnd = random.Random(s)
    FSM = recfs.install()
    recfs.LOG.reset()
    recfs.LOG.enabled = False
    clock.install(clock.FakeClock())
    ZODB.DemoStorage.random = random.Random(s)
    kind = rnd.choice(['mapping', 'demo', 'demo-file'])

    def mk():
        if kind == 'mapping':
            return ZODB.MappingStorage.MappingStorage()
        if kind == 'demo':
            return ZODB.DemoStorage.DemoStorage()
        return ZODB.DemoStorage.DemoStorage(base=ZODB.MappingStorage.MappingStorage(), changes=FSM.FileStorage(os.path.join(d, 'Ch%d.fs' % rnd.randrange(10 ** 9))))
    st = mk()
    dr = Driver(st, rnd, kind='mapping')
    dr.oids = dr.oids[1:5]
    for _ in range(rnd.randrange(1, 5)):
        dr.step(['store'] * 3 + ['multi'])
    spec = dr.spec
    live = [o for o in spec.oids()]
    nst = rnd.choice([1, 2, 3])
    sites = [('abort', a) for a in range(1, nst + 3)] + [('stale', i) for i in range(nst)] + [('foreign', i) for i in range(nst + 2)]
    if kind == 'demo-file':
        sites += [('metadata', f) for f in ('user', 'desc', 'ext')]
        sites += [('tmpfull', 0)]          # the changes storage's temporary commit file cannot be written until the abort was attempted
    for (sk, arg) in sites:
        pre = observe(st, full=False, undolog=False)
        if sk == 'tmpfull':
            import errno
            recfs.LOG.ops = []
            recfs.LOG.enabled = True
            recfs.LOG.fault = lambda op: ('raise', errno.ENOSPC) if op[0] == 'write' and str(op[1]).endswith('.tmp') else None
        if sk == 'metadata':
            big = b'm' * 65536
            tmeta = TransactionMetaData(big if arg == 'user' else b'u', big if arg == 'desc' else b'd', {'x': 'y' * 70000} if arg == 'ext' else None)
        else:
            tmeta = TransactionMetaData(b'u', b'victim')
        steps = [('begin', lambda: st.tpc_begin(tmeta))]
        for i in range(nst):
            oid = live[i % len(live)] if i % 2 == 0 else p64(0x200 + i)
            cur = spec.current(oid)[0] if spec.current(oid) else z64
            serial = cur
            if sk == 'stale' and arg == i:
                serial = p64(u64(cur) - 1) if cur != z64 else p64(5)
                if spec.current(oid) is None:
                    serial = cur          # a new object cannot be stale; site degenerates
            steps.append(('store', (lambda oid=oid, serial=serial: st.store(oid, serial, objs.cell_record('v'), '', tmeta))))
        steps.append(('vote', lambda: st.tpc_vote(tmeta)))
        exc = None
        done = 0
        sh.count('fault_sites')
        try:
            for i, (name, f) in enumerate(steps):
                if sk == 'foreign' and arg == i:
                    t2 = TransactionMetaData(b'f', b'foreign')
                    for cname, cf in (('store', lambda: st.store(p64(0x100), z64, objs.cell_record('f'), '', t2)),
                                      ('tpc_vote', lambda: st.tpc_vote(t2)), ('tpc_finish', lambda: st.tpc_finish(t2)),
                                      ('checkCurrentSerialInTransaction', lambda: st.checkCurrentSerialInTransaction(live[0], z64, t2))):
                        try:
                            cf()
                            sh.violation('c05:%s:foreign-transaction-%s-accepted' % (kind, cname), {'before_step': name}, case)
                        except StorageTransactionError:
                            sh.count('foreign_transaction_calls_rejected')
                    st.tpc_abort(t2)
                f()
                done += 1
                if sk == 'abort' and arg == done:
                    break
        except ConflictError as e:
            exc = e
        except Exception as e:
            from ZODB.FileStorage.FileStorage import FileStorageError
            if not isinstance(e, FileStorageError) and not (sk == 'tmpfull' and isinstance(e, OSError)):
                recfs.LOG.fault = None
                recfs.LOG.enabled = False
                raise
            exc = e
        if sk == 'tmpfull':
            # the abort is attempted while the failure lasts (it may fail itself) and once more after it is over
            sh.count('aborts_attempted_while_the_write_failure_persists')
            for again in (False, True):
                try:
                    st.tpc_abort(tmeta)
                except Exception:
                    pass
                recfs.LOG.fault = None
                recfs.LOG.enabled = False
        fired = exc is not None or sk == 'abort'
        if sk == 'foreign' and exc is None:
            st.tpc_finish(tmeta)
            # model: the victim committed
            from zv.spec import Txn
            st2 = observe(st, full=False, undolog=False)
            if len(st2['txns']) != len(pre['txns']) + 1:
                sh.violation('c05:%s:commit-after-foreign-calls-wrong' % kind, {}, case)
            # rebuild spec from the storage for the next site
            it = st.iterator()
            from zv.spec import txn_canon, Spec
            spec = Spec([Txn(*txn_canon(t)) for t in it])
            if hasattr(it, 'close'):
                it.close()
            live = spec.oids()
            sh.case(digest(kind, sk, arg), None)
            continue
        st.tpc_abort(tmeta)
        if fired:
            sh.count('faults_fired')
            sh.count({'abort': 'abort_points', 'stale': 'stale_serial_sites', 'metadata': 'metadata_sites', 'tmpfull': 'raw_op_faults'}[sk])
        wit = {'storage': kind, 'site': (sk, arg), 'exc': repr(exc)[:100], 'steps_done': done}
        c2 = dict(case, other=True)
        sh.count('snapshots_compared')
        df = first_diff(observe(st, full=False, undolog=False), pre)
        if df:
            sh.violation('c05:%s:state-changed-by-unfinished-transaction' % kind, dict(wit, diff=df), c2)
            return kind
        locks = [('commit lock', st._commit_lock)] + ([('changes commit lock', st.changes._commit_lock)] if kind.startswith('demo') else [])
        for lname, lk in locks:
            if lk.locked():
                what = 'over-long-metadata' if sk == 'metadata' else 'persisting-write-failure-on-the-temporary-file' if sk == 'tmpfull' else sk
                sh.violation('c05:%s:%s-held-after-failed-transaction:%s' % (kind, lname.replace(' ', '-'), what), wit, c2)
                return kind
        # follow-up commit (cannot block: the lock state was just read)
        t3 = TransactionMetaData(b'', b'follow-up')
        st.tpc_begin(t3)
        st.store(p64(0x900), spec.current(p64(0x900))[0] if spec.current(p64(0x900)) else z64, objs.cell_record('after'), '', t3)
        st.tpc_vote(t3)
        tid3 = st.tpc_finish(t3)
        sh.count('followup_commits')
        from zv.spec import Txn
        spec.txns.append(Txn(tid3, ' ', b'', b'follow-up', b'', [(p64(0x900), objs.cell_record('after'))]))
        live = spec.oids()
        sh.case(digest(kind, sk, arg) if fired else None, None)
    try:
        st.close()
    except Exception:
        pass
    return kind


def run_victim_blobwrap(sh, s, d, case):
    """blob wrapper over MappingStorage: a transaction with a blob aborted after each protocol step leaves the blob
    directory and the storage unchanged"""
    import ZODB.MappingStorage
    import ZODB.blob
    import zodbpickle.pickle as zp
    from zv import recfs, clock, objs
    from zv.observe import observe, first_diff
    from ZODB.Connection import TransactionMetaData
    from ZODB.POSException import ConflictError
    from ZODB.utils import p64, z64
    rnd = random.Random(s)
    recfs.install()
    recfs.LOG.reset()
    recfs.LOG.enabled = False
    clock.install(clock.FakeClock())
    bd = os.path.join(d, 'wblobs')
    st = ZODB.blob.BlobStorage(bd, ZODB.MappingStorage.MappingStorage())
    blob_rec = zp.dumps(ZODB.blob.Blob, 3) + zp.dumps(None, 3)
    boid, ooid = p64(1), p64(2)

    def tmpblob(content):
        pth = os.path.join(st.temporaryDirectory(), 'vb%d' % rnd.randrange(10 ** 9))
        with open(pth, 'wb') as f:
            f.write(content)
        return pth
    t = TransactionMetaData(b'', b'setup')
    st.tpc_begin(t)
    st.storeBlob(boid, z64, blob_rec, tmpblob(b'committed'), '', t)
    st.store(ooid, z64, objs.cell_record('o'), '', t)
    st.tpc_vote(t)
    tid0 = st.tpc_finish(t)
    for site in ('after-begin', 'after-storeBlob', 'after-store', 'after-vote', 'stale-second-store'):
        pre = (observe(st, full=False, undolog=False), blob_listing(bd))
        t = TransactionMetaData(b'', b'victim')
        sh.count('fault_sites')
        try:
            st.tpc_begin(t)
            if site != 'after-begin':
                st.storeBlob(boid, tid0, blob_rec, tmpblob(b'victim bytes'), '', t)
                if site != 'after-storeBlob':
                    st.store(ooid, tid0 if site != 'stale-second-store' else p64(5), objs.cell_record('v'), '', t)
                    if site == 'after-vote':
                        st.tpc_vote(t)
        except ConflictError:
            pass
        st.tpc_abort(t)
        sh.count('faults_fired')
        sh.count('abort_points')
        sh.count('snapshots_compared')
        post = (observe(st, full=False, undolog=False), blob_listing(bd))
        if post[0] != pre[0]:
            sh.violation('c05:blobwrap:state-changed-by-unfinished-transaction', {'site': site, 'diff': first_diff(post[0], pre[0])}, case)
        elif post[1] != pre[1]:
            sh.violation('c05:blobwrap:blob-directory-changed-by-unfinished-transaction',
                         {'site': site, 'files': sorted(set(post[1]) ^ set(pre[1]))[:3]}, case)
        elif st._commit_lock.locked():
            sh.violation('c05:blobwrap:commit-lock-held-after-failed-transaction', {'site': site}, case)
        sh.case(digest('blobwrap', site), None)
    # calls with a transaction other than the one being committed, at every step of a blob transaction: rejected without effect
    from ZODB.POSException import StorageTransactionError
    tcur = tid0
    for at in ('after-begin', 'after-storeBlob', 'after-vote'):
        t = TransactionMetaData(b'', b'with foreign calls')
        other = TransactionMetaData(b'foreign', b'foreign')
        st.tpc_begin(t)
        if at != 'after-begin':
            st.storeBlob(boid, tcur, blob_rec, tmpblob(b'bytes %s' % at.encode()), '', t)
            if at == 'after-vote':
                st.tpc_vote(t)
        for name, call in (('storeBlob', lambda: st.storeBlob(boid, tcur, blob_rec, tmpblob(b'foreign'), '', other)),
                           ('store', lambda: st.store(ooid, tcur, objs.cell_record('foreign'), '', other)),
                           ('tpc_vote', lambda: st.tpc_vote(other)),
                           ('tpc_finish', lambda: st.tpc_finish(other)),
                           ('tpc_abort', lambda: st.tpc_abort(other)),
                           ('tpc_abort', lambda: st.tpc_abort(transaction=other)),       # (the parameter's documented name)
                           ('tpc_vote', lambda: st.tpc_vote(transaction=other)),
                           ('tpc_finish', lambda: st.tpc_finish(transaction=other))):
            try:
                call()
                if name != 'tpc_abort':
                    sh.violation('c05:blobwrap:foreign-transaction-%s-accepted' % name, {'at': at}, case)
            except StorageTransactionError:
                sh.count('foreign_transaction_calls_rejected')
        if at == 'after-begin':
            st.storeBlob(boid, tcur, blob_rec, tmpblob(b'bytes %s' % at.encode()), '', t)
        if at != 'after-vote':
            st.tpc_vote(t)
        tcur = st.tpc_finish(t)
        try:
            with open(st.loadBlob(boid, tcur), 'rb') as f:
                got = f.read()
        except Exception as e:
            got = type(e).__name__
        if got != b'bytes %s' % at.encode():
            sh.violation('c05:blobwrap:commit-after-foreign-calls-wrong', {'at': at, 'blob': repr(got)[:60]}, case)
        sh.count('victims_committed_after_foreign_calls')
    tid0 = tcur
    t = TransactionMetaData(b'', b'follow-up')
    st.tpc_begin(t)
    st.storeBlob(boid, tid0, blob_rec, tmpblob(b'next'), '', t)
    st.tpc_vote(t)
    tid1 = st.tpc_finish(t)
    sh.count('followup_commits')
    with open(st.loadBlob(boid, tid1), 'rb') as f:
        if f.read() != b'next':
            sh.violation('c05:blobwrap:follow-up-blob-wrong', {}, case)
    return 'blobwrap'


def run_victim_db(sh, s, d, case):
    """commits through the DB/Connection API that fail before the finish: over-long metadata rejected by the storage's
    tpc_begin, another participant failing in each phase, a conflict; afterwards nothing changed, nobody is blocked"""
    import hashlib
    import ZODB
    import ZODB.MappingStorage
    import ZODB.DemoStorage
    import transaction
    from zv import recfs, clock, objs
    from zv.observe import observe, first_diff
    from zv.shadow import FailingRM
    from ZODB.POSException import ConflictError
    rnd = random.Random(s)
    FSM = recfs.install()
    recfs.LOG.reset()
    recfs.LOG.enabled = False
    clock.install(clock.FakeClock())
    ZODB.DemoStorage.random = random.Random(s)
    kind = rnd.choice(['file', 'file', 'demo-file', 'mapping'])
    path = os.path.join(d, 'DB.fs')
    st = (FSM.FileStorage(path) if kind == 'file' else
          ZODB.DemoStorage.DemoStorage(base=ZODB.MappingStorage.MappingStorage(), changes=FSM.FileStorage(path)) if kind == 'demo-file'
          else ZODB.MappingStorage.MappingStorage())
    db = ZODB.DB(st)
    with db.transaction() as c:
        c.root()['a'] = objs.Cell('a0')
        c.root()['b'] = objs.Cell('b0')
    tm = transaction.TransactionManager()
    c = db.open(tm)
    sites = ['meta-description', 'meta-user', 'meta-extension', 'rm-tpc_begin-before', 'rm-commit-after', 'rm-tpc_vote-after', 'rm-tpc_vote-before', 'conflict']
    rnd.shuffle(sites)
    inner = st.changes if kind == 'demo-file' else st
    for site in sites:
        pre = observe(st, full=False, undolog=False)
        fbytes = hashlib.sha1(open(path, 'rb').read()).hexdigest() if kind != 'mapping' else None
        tm.begin()
        c.root()['a'].payload = 'victim %s' % site
        c.root()['new-%s' % site] = objs.Cell('new')
        t = tm.get()
        expect_fail = True
        if site.startswith('meta-'):
            big = 'm' * 70000
            if site == 'meta-description':
                t.note(big)
            elif site == 'meta-user':
                t.setUser(big)
            else:
                t.setExtendedInfo('k', big)
            expect_fail = kind != 'mapping'        # only FileStorage limits metadata
        elif site.startswith('rm-'):
            _, phase, where = site.split('-')
            t.join(FailingRM(phase, '!before' if where == 'before' else '~~~after'))
        else:
            tm2 = transaction.TransactionManager()
            c2 = db.open(tm2)
            tm2.begin()
            c2.root()['a'].payload = 'theirs %s' % site
            tm2.commit()
            c2.close()
            pre = observe(st, full=False, undolog=False)
            fbytes = hashlib.sha1(open(path, 'rb').read()).hexdigest() if kind != 'mapping' else None
        failed = False
        try:
            tm.commit()
        except (RuntimeError, ConflictError):
            failed = True
            tm.abort()
        except Exception as e:
            from ZODB.FileStorage.FileStorage import FileStorageError
            if not isinstance(e, FileStorageError):
                raise
            failed = True
            tm.abort()
        sh.count('fault_sites')
        sh.count('db_level_sites')
        wit = {'storage': kind, 'site': site}
        c2_ = dict(case, site=site)
        if failed != expect_fail:
            sh.violation('c05:db:%s:%s' % (kind, 'commit-succeeded-although-it-should-fail' if not failed else 'commit-failed-unexpectedly'), wit, c2_)
            break
        if not failed:
            continue
        sh.count('faults_fired')
        sh.count('snapshots_compared')
        if st.tpc_transaction() is not None:
            sh.violation('c05:db:%s:storage-still-in-the-failed-transaction(%s)' % (kind, site.split('-')[0]), wit, c2_)
            break
        if inner._commit_lock.locked() or st._commit_lock.locked():
            sh.violation('c05:db:%s:commit-lock-held-after-failed-commit(%s)' % (kind, site.split('-')[0]), wit, c2_)
            break
        df = first_diff(observe(st, full=False, undolog=False), pre)
        if df:
            sh.violation('c05:db:%s:state-changed-by-failed-commit(%s)' % (kind, site.split('-')[0]), dict(wit, diff=df), c2_)
            break
        if fbytes is not None:
            inner._file.flush()
            if hashlib.sha1(open(path, 'rb').read()).hexdigest() != fbytes:
                sh.violation('c05:db:%s:data-file-changed-by-failed-commit(%s)' % (kind, site.split('-')[0]), wit, c2_)
                break
        # the next transaction (same and another connection) commits normally - cannot block: lock state was just read
        tm.begin()
        c.root()['b'].payload = 'after %s' % site
        tm.commit()
        sh.count('followup_commits')
        sh.case(digest('db', kind, site), None)
    c.close()
    db.close()
    return 'db:' + kind


def blocked_world_shard(sh, params):
    """"blocks no one" under threads: worlds of committers (a quarter of whose commits fail after the storage voted), readers and an
    undoer, under the baton scheduler (shard 14) or freely running (shard 15); nobody may dead-lock or die, and afterwards a
    transaction begins and commits normally (the world's own final read-back and history scan)"""
    from zv import mvccload
    free = params['shard'] == 15
    s0 = params['seed'] * 7919 + params['shard']
    i = 0
    while sh.time_left():
        i += 1
        seed = (s0 + i * 15485863) & 0x7fffffff
        kind = ('file', 'demo-file', 'file', 'mapping')[i % 4]
        strategy = 'free' if free else ('sticky', 'pct')[i % 2]
        case = {'world': True, 'seed': seed, 'kind': kind, 'strategy': strategy}
        try:
            out = mvccload.run_schedule(seed, kind, strategy, sh.scratch, stick=0.9, pct_depth=2)
        except Exception:
            import traceback
            sh.violation('c05:world:harness-or-world-raises', {'exc': traceback.format_exc()[-500:]}, case)
            continue
        sh.count('concurrent_worlds')
        sh.count('commits_failed_after_the_vote_with_concurrent_readers', out.get('vote_failures', 0))
        for f in out['sched']:
            sh.violation('c05:world:%s:%s' % (kind, f[0] if f[0] != 'thread-exception' else 'thread-raises-%s' % f[2]), {'detail': f[1:]}, case)
        for v in out['c03']:
            if v[0] in ('value-of-failed-transaction-stored',):
                sh.violation('c05:world:%s:%s' % (kind, v[0]), {'witness': v[1:]}, case)
        sh.case(digest('world', kind, out['digest']) if out.get('vote_failures') else None)
    return sh.result()


def copy_fault_case(sh, s, d, case):
    """copyTransactionsFrom runs two-phase commits of its own on the destination: when the k-th raw write to the destination fails,
    the call fails, the destination holds exactly the transactions copied completely before, no transaction is left open on it (the
    caller has no transaction object to abort), and it goes on working"""
    import errno
    import ZODB.MappingStorage
    from zv import recfs, clock, objs
    from zv.observe import observe, first_diff
    from ZODB.Connection import TransactionMetaData
    from ZODB.utils import z64, p64
    rnd = random.Random(s)
    FSM = recfs.install()
    LOG = recfs.LOG
    LOG.reset()
    LOG.enabled = False
    clock.install(clock.FakeClock())
    with_blobs = rnd.random() < 0.4
    bdir = os.path.join(d, 'sblobs')
    src = FSM.FileStorage(os.path.join(d, 'Src.fs'), blob_dir=bdir if with_blobs else None)
    tid = {}
    from ZODB.blob import Blob
    import pickle
    blob_rec = None
    if with_blobs:
        import ZODB
        db0 = ZODB.DB(src)
        with db0.transaction() as c0:
            c0.root()['b'] = Blob(b'blob bytes')
        blob_rec = True
    for n in range(rnd.randrange(2, 6)):
        t = TransactionMetaData(b'u', b'source txn %d' % n)
        src.tpc_begin(t)
        for o in rnd.sample(range(1, 6), rnd.randrange(1, 4)):
            oid = p64(0x100 + o)
            src.store(oid, tid.get(oid, z64), objs.cell_record('v%d-%d' % (n, o) * rnd.choice([1, 40, 900])), '', t)
            tid[oid] = None
        src.tpc_vote(t)
        tt = src.tpc_finish(t)
        for oid in [o_ for o_, v in tid.items() if v is None]:
            tid[oid] = tt
    it = src.iterator()
    src_tids = [tx.tid for tx in it]
    it.close()
    # reference: an undisturbed copy
    ref = FSM.FileStorage(os.path.join(d, 'Ref.fs'), blob_dir=os.path.join(d, 'rblobs') if with_blobs else None)
    ref.copyTransactionsFrom(src)
    k = 0
    while sh.time_left():
        k += 1
        dd = os.path.join(d, 'dst%d' % k)
        os.makedirs(dd)
        dst = FSM.FileStorage(os.path.join(dd, 'Dst.fs'), blob_dir=os.path.join(dd, 'blobs') if with_blobs else None)
        cnt = [0]
        fired = []

        def fault(op):
            if op[0] in ('write', 'fsync') and str(op[1]).startswith(dd) and not fired:
                cnt[0] += 1
                if cnt[0] == k:
                    fired.append(op[0])
                    return ('raise', errno.ENOSPC)
            return None
        LOG.ops = []
        LOG.enabled = True
        LOG.fault = fault
        exc = None
        try:
            dst.copyTransactionsFrom(src)
        except Exception as e:
            exc = e
        finally:
            LOG.fault = None
            LOG.enabled = False
        if not fired:
            dst.close()
            break                      # past the last write of the copy
        sh.count('copies_interrupted_by_a_failing_write_on_the_destination')
        c2 = dict(case, k=k)
        if exc is None:
            sh.count('copies_completed_despite_the_failed_write')
        if dst._file.closed:
            # the write that failed belonged to the finish step: FileStorage closes itself then (outside the statement, which is
            # about failures before the finish); go on with the file as it is on disk
            sh.count('destination_closed_itself_after_a_failure_in_the_finish_step')
            dst = FSM.FileStorage(os.path.join(dd, 'Dst.fs'), blob_dir=os.path.join(dd, 'blobs') if with_blobs else None)
        if dst._commit_lock.locked() or dst.tpc_transaction() is not None:
            sh.violation('c05:copy:destination-left-inside-a-transaction-after-a-failed-copy',
                         {'k': k, 'op': fired[0], 'exc': repr(exc)[:100], 'commit_lock_held': dst._commit_lock.locked()}, c2)
            dst.tpc_abort(dst.tpc_transaction())
            dst.close()
            return 'copy'
        it = dst.iterator()
        got = [tx.tid for tx in it]
        it.close()
        if got != src_tids[:len(got)]:
            sh.violation('c05:copy:destination-holds-other-transactions-than-a-prefix-of-the-source', {'k': k}, c2)
        # goes on working: the rest of the source can be committed by hand and the result equals the undisturbed copy
        for tx in src.iterator(src_tids[len(got)] if len(got) < len(src_tids) else None) if len(got) < len(src_tids) else ():
            dst.tpc_begin(tx, tx.tid, tx.status)
            for r in tx:
                if with_blobs and r.data and ZODB.blob.is_blob_record(r.data):
                    import shutil as _sh
                    tmpn = os.path.join(dd, 'tmpblob')
                    _sh.copy(src.loadBlob(r.oid, r.tid), tmpn)
                    dst.restoreBlob(r.oid, r.tid, r.data, tmpn, r.data_txn, tx)
                else:
                    dst.restore(r.oid, r.tid, r.data, '', r.data_txn, tx)
            dst.tpc_vote(tx)
            dst.tpc_finish(tx)
        sh.count('followup_commits')
        df = first_diff(observe(dst, full=False), observe(ref, full=False))
        if df:
            sh.violation('c05:copy:destination-differs-from-an-undisturbed-copy-after-resuming', {'k': k, 'diff': df}, c2)
        dst.close()
    ref.close()
    src.close()
    return 'copy'


def run_shard(params):
    logging.disable(logging.CRITICAL)
    sh = Shard(params)
    if params.get('shard') in (14, 15) and params.get('nshards', 16) >= 16:
        return blocked_world_shard(sh, params)
    for j in range(3):
        cdb = {'seed': params['seed'] * 977 + params['shard'] * 13 + j, 'db': True}
        guarded(sh, 'c05', cdb, lambda: run_victim_db(sh, cdb['seed'], sh.fresh_dir('dbv'), cdb))
    ccopy = {'seed': params['seed'] * 31 + params['shard'], 'copy': True}
    guarded(sh, 'c05', ccopy, lambda: copy_fault_case(sh, ccopy['seed'], sh.fresh_dir('cp'), ccopy))
    guarded(sh, 'c05', {'seed': params['seed'], 'blobwrap': True}, lambda: run_victim_blobwrap(sh, params['seed'], sh.fresh_dir('bw'), {'seed': params['seed'], 'blobwrap': True}))
    for i in case_indices(params):
        if not sh.time_left():
            break
        s = case_seed(params, i)
        other = (i % 4 == 3)
        case = {'seed': s, 'other': other}
        d = sh.fresh_dir('c05')
        kv = guarded(sh, 'c05', case, lambda: (run_victim_other if other else run_victim_file)(sh, s, d, case))
        sh.count('victims')
        if kv:
            sh.note('victim_kinds', kv)
            if len(sh.samples) < 2:
                sh.samples.append({'seed': s, 'victim': kv, 'storage': 'other' if other else 'file'})
    return sh.result()


def replay(case, scratch):
    logging.disable(logging.CRITICAL)
    sh = Shard({'scratch': scratch, 'budget_s': 600})
    if case.get('world'):
        from zv import mvccload
        out = mvccload.run_schedule(case['seed'], case['kind'], case['strategy'], scratch, stick=0.9, pct_depth=2)
        return [{'mechanism': 'c05:world:%s:%s' % (case['kind'], f[0] if f[0] != 'thread-exception' else 'thread-raises-%s' % f[2]),
                 'detail': {'detail': f[1:]}, 'case': case} for f in out['sched']]
    if case.get('copy'):
        guarded(sh, 'c05', case, lambda: copy_fault_case(sh, case['seed'], sh.fresh_dir('cp'), case))
        return sh.violations
    if case.get('db'):
        guarded(sh, 'c05', case, lambda: run_victim_db(sh, case['seed'], sh.fresh_dir('dbv'), case))
        return sh.violations
    if case.get('blobwrap'):
        guarded(sh, 'c05', case, lambda: run_victim_blobwrap(sh, case['seed'], sh.fresh_dir('bw'), case))
        return sh.violations
    if case.get('other'):
        guarded(sh, 'c05', case, lambda: run_victim_other(sh, case['seed'], sh.fresh_dir('c05'), case))
    else:
        guarded(sh, 'c05', case, lambda: run_victim_file(sh, case['seed'], sh.fresh_dir('c05'), case, only=case.get('site')))
    return sh.violations
