"""C04  The storage answers every revision query from the committed history (battery vs Spec)."""
import logging
import os
import random

from zv.harness import Shard, split, case_indices, case_seed, digest, guarded

ID = 'C04'
LEVEL = 'exploration'
ENGINE = 'Spec'
TECHNIQUE = ('differential runtime monitoring: full revision-query battery on the real storage vs a pure-Python '
             'history model after generated histories, under hostile fake clocks, before and after close/reopen')
RULE = ('random storage-level histories (store new/existing, multi-object, empty, abort before/after vote, deleteObject, '
        'undo / undo of undo / multi-undo, restore with explicit tids, status p, None data and prev-txn hints, metadata lengths '
        '0..65535, reopen with and without index) on FileStorage, MappingStorage and DemoStorage under clock modes '
        'normal/stall/back/mixed/jump; after the history (and at random points) every battery query (load, loadBefore at '
        'every tid boundary, loadSerial, getTid, history, iterator ranges, undoLog ranges, record_iternext, lastTransaction, '
        'len) is compared with the model, then again after reopen. Non-trivial = distinct history digests with >= 3 '
        'committed transactions, >= 2 revisions of some object and a reopen or a non-normal clock.')
LEVEL_TEXT = ('Held on the generated histories x full query battery; every answer (value or exception class) is compared with '
              'an independent model written from interfaces.py, tid monotonicity is asserted at every commit. Not a proof.')
LEVEL_NOTE = ('Trusts the model (zv/spec.py), zodbpickle, persistent.TimeStamp. history()["size"] and data_txn are not compared; '
              'duplicate stores of one oid in a single transaction are not generated.')
ASSUMPTIONS = ['model written from ZODB/interfaces.py', 'history size / data_txn not compared', 'single process, single thread']
REQUIRED_COUNTERS = ('battery_queries', 'reopens', 'tid_monotonic_checks')

FILE_OPS = ['store'] * 4 + ['multi'] * 2 + ['undo'] * 3 + ['undo2', 'delete', 'restore', 'restore', 'reopen', 'reopen', 'empty', 'abort', 'resolved']
MAP_OPS = ['store'] * 4 + ['multi'] * 2 + ['empty', 'abort']


def shards(tier, seed):
    return split(tier, seed, 12000, 400000, 40, 900)


def make_storage(kind, d, FSM):
    import ZODB.MappingStorage
    import ZODB.DemoStorage
    if kind == 'file':
        return FSM.FileStorage(os.path.join(d, 'Data.fs'))
    if kind == 'mapping':
        return ZODB.MappingStorage.MappingStorage()
    if kind == 'demo':
        return ZODB.DemoStorage.DemoStorage()
    if kind == 'demo-file':
        base = ZODB.MappingStorage.MappingStorage()
        return ZODB.DemoStorage.DemoStorage(base=base, changes=FSM.FileStorage(os.path.join(d, 'Changes.fs')))
    raise ValueError(kind)


def run_case(sh, s, d, case):
    from zv import recfs, clock
    from zv.driver import Driver, Mismatch
    from zv.spec import battery
    rnd = random.Random(s)
    kind = rnd.choice(['file'] * 6 + ['mapping', 'demo', 'demo-file'])
    if s % 11 == 0:
        kind = 'demo-base'          # demo storage over a populated base: every query answered from changes-over-base (see also C16)
    mode = rnd.choice(['normal', 'normal', 'stall', 'back', 'mixed', 'jump'])
    FSM = recfs.install()
    recfs.LOG.enabled = False
    clk = clock.install(clock.FakeClock(mode=mode, rnd=random.Random(s + 1)))
    mkind = 'file' if kind in ('file', 'demo-file') else 'mapping'
    from zv.driver import model_resolver
    bopts = {}
    if kind == 'demo-base':
        import ZODB.MappingStorage
        import ZODB.DemoStorage
        ZODB.DemoStorage.random = random.Random(s + 2)
        base = ZODB.MappingStorage.MappingStorage()
        bdr = Driver(base, rnd, kind='mapping')
        bdr.oids = bdr.oids[:5]
        for _ in range(rnd.randrange(1, 6)):
            bdr.step(MAP_OPS)
        st = ZODB.DemoStorage.DemoStorage(base=base)
        nbase = len(bdr.spec.txns)
        dr = Driver(st, rnd, kind='mapping', spec=bdr.spec.copy(), resolver=model_resolver)
        dr.undoable_from = nbase
        dr.uid = 5000
        dr.trace = ['base:' + x for x in bdr.trace]
        dr.oids = bdr.oids
        bopts = dict(undolog=False, absent_equiv=True)
    else:
        st = make_storage(kind, d, FSM)
        dr = Driver(st, rnd, kind=mkind, resolver=model_resolver)
    dr.mix_classes = kind == 'file' and rnd.random() < 0.4
    if kind == 'mapping' or kind == 'demo':
        dr.oids = dr.oids[:5]
    ops = FILE_OPS if kind == 'file' else (MAP_OPS + ['undo', 'undo'] if kind == 'demo-file' else MAP_OPS)
    nops = rnd.choice([4, 8, 12, 16, 24, 32])
    factory = (lambda: FSM.FileStorage(os.path.join(d, 'Data.fs'))) if kind == 'file' else None
    diffs = []
    reopened = False
    try:
        for i in range(nops):
            before = dr.ncommit
            dr.step(ops, factory)
            st = dr.st
            if dr.ncommit > before:
                tids = [x.tid for x in dr.spec.txns]
                sh.count('tid_monotonic_checks')
                if len(tids) > 1 and not tids[-2] < tids[-1]:
                    sh.violation('c04:tids-not-strictly-increasing', {'clock': mode, 'tids': tids[-2:], 'trace': dr.trace}, case)
                    return None
            if i == nops - 1 or rnd.random() < 0.2:
                if kind == 'demo-base':
                    bopts['nchanges_oids'] = len({o for tx in dr.spec.txns[nbase:] for (o, _) in tx.records})
                n, df = battery(st, dr.spec, mkind, counter=sh.count, iternext=(kind == 'file'), **bopts)
                if df:
                    diffs = [('after-op-%d' % i,) + x for x in df[:3]]
                    break
        if not diffs and kind == 'file':
            for drop in (False, True):
                dr.op_reopen(factory, drop_index=drop)
                st = dr.st
                sh.count('reopens')
                reopened = True
                n, df = battery(st, dr.spec, mkind, counter=sh.count)
                if df:
                    diffs = [('after-reopen%s' % ('-noindex' if drop else ''),) + x for x in df[:3]]
                    break
        if not diffs and kind in ('mapping', 'demo', 'demo-base') and dr.spec.txns:
            # a garbage-collecting pack may remove the newest transactions (the driver's objects hang on nothing): the ids handed
            # out afterwards must still be above everything reported before, whatever the clock does
            from ZODB.serialize import referencesf
            from ZODB.Connection import TransactionMetaData
            from ZODB.utils import p64, z64
            from zv import objs
            last_before = dr.st.lastTransaction()
            try:
                dr.st.pack(clk.now + 10, referencesf)
                sh.count('packs_before_a_further_commit')
            except Exception as e:
                sh.note('pack_exceptions', type(e).__name__)
            tm_ = TransactionMetaData(b'', b'after pack')
            dr.st.tpc_begin(tm_)
            dr.st.store(dr.st.new_oid(), z64, objs.cell_record('after pack'), '', tm_)
            dr.st.tpc_vote(tm_)
            tid_new = dr.st.tpc_finish(tm_)
            sh.count('tid_monotonic_checks')
            if not tid_new > last_before:
                sh.violation('c04:tids-not-strictly-increasing', {'clock': mode, 'tids': [last_before, tid_new], 'after_pack': True, 'trace': dr.trace}, case)
                return None
    except Mismatch as e:
        sh.violation('c04:' + e.mechanism, {'detail': e.detail, 'trace': dr.trace, 'kind': kind}, case)
        return None
    finally:
        try:
            dr.st.close()
        except Exception:
            pass
    if diffs:
        q = diffs[0][1][0]
        sh.violation('c04:%s:%s-differs-from-model' % (mkind if kind != 'demo' else 'demo', q),
                     {'first': diffs[0], 'kind': kind, 'clock': mode, 'trace': dr.trace}, case)
    revs = max([len(dr.spec.revs(o)) for o in dr.spec.oids()] or [0])
    nontrivial = len(dr.spec.txns) >= 3 and revs >= 2 and (reopened or mode != 'normal' or 'reopen' in ' '.join(dr.trace))
    for f in dr.features:
        sh.note('features', f.split('-len-')[0])
    sh.note('storage_kinds', kind)
    sh.note('clock_modes', mode)
    return (digest(kind, mode, dr.trace, [t.tid for t in dr.spec.txns]) if nontrivial else None,
            {'seed': s, 'kind': kind, 'clock': mode, 'trace': dr.trace})


def crafted_extension_keys(sh, d, case):
    """extension keys named like the undo log's own keys: iteration, history and undo log must still report the transaction's
    id, user, description, time and size (and the other extension keys), and the id the undo log reports must undo it"""
    import base64
    from zv import recfs, objs
    from ZODB.Connection import TransactionMetaData
    from ZODB.utils import z64
    from persistent.TimeStamp import TimeStamp
    FSM = recfs.install()
    recfs.LOG.enabled = False
    for variant in (case.get('variant'),) if case.get('variant') else ('file', 'demo-file'):
        path = os.path.join(d, variant + '.fs')
        st = FSM.FileStorage(path)
        if variant == 'demo-file':
            import ZODB.DemoStorage
            st = ZODB.DemoStorage.DemoStorage(changes=st)
        c2 = dict(case, variant=variant)
        oid = st.new_oid()
        tids = []
        for n, ext in enumerate([{}, {'id': 'bogus', 'description': 'ext-desc', 'user_name': 'ext-user', 'time': 0, 'size': -1, 'extra': 1}]):
            t = TransactionMetaData(b'real user', b'real description %d' % n, ext)
            st.tpc_begin(t)
            st.store(oid, tids[-1] if tids else z64, objs.cell_record('v%d' % n), '', t)
            st.tpc_vote(t)
            tids.append(st.tpc_finish(t))
        tid = tids[-1]
        want = {'id': base64.encodebytes(tid).rstrip(), 'user_name': b'real user', 'description': b'real description 1', 'extra': 1}
        for reopen in (False, True):
            if reopen:
                st.close()
                st = FSM.FileStorage(path)
                if variant == 'demo-file':
                    st = ZODB.DemoStorage.DemoStorage(changes=st)
            sh.count('undo_log_entries_with_extension_keys_named_like_its_own')
            entry = st.undoLog(0, 1)[0]
            got = {k: entry.get(k) for k in want}
            if got != want or abs(entry.get('time', 0) - TimeStamp(tid).timeTime()) > 1e-3 or not entry.get('size', 0) > 0:
                sh.violation('c04:%s:undoLog-reports-extension-values-in-place-of-the-transactions-own' % variant,
                             {'got': {k: repr(v) for k, v in entry.items()}, 'reopen': reopen}, c2)
                return
            h = st.history(oid, 1)[0]
            if (h['tid'], h['user_name'], h['description']) != (tid, b'real user', b'real description 1'):
                sh.violation('c04:%s:history-reports-extension-values-in-place-of-the-transactions-own' % variant, {'got': repr(h)[:200]}, c2)
                return
            it = st.iterator(tid)
            tx = next(iter(it))
            if (tx.tid, tx.user, tx.description, tx.extension.get('id')) != (tid, b'real user', b'real description 1', 'bogus'):
                sh.violation('c04:%s:iterator-metadata-differs' % variant, {}, c2)
                return
            if hasattr(it, 'close'):
                it.close()
            if not st.undoInfo(0, 5, {'description': b'real description 1'}):
                sh.violation('c04:%s:undoInfo-does-not-find-the-transaction-by-its-description' % variant, {'reopen': reopen}, c2)
                return
        st.close()


def run_shard(params):
    logging.disable(logging.CRITICAL)
    sh = Shard(params)
    if params.get('shard', 0) in (0, 1):
        cc = {'crafted': 'extension-keys'}
        guarded(sh, 'c04', cc, lambda: crafted_extension_keys(sh, sh.fresh_dir('c04x'), cc))
    for i in case_indices(params):
        if not sh.time_left():
            break
        s = case_seed(params, i)
        case = {'seed': s}
        d = sh.fresh_dir('c04')
        r = guarded(sh, 'c04', case, lambda: run_case(sh, s, d, case))
        if r:
            sh.case(r[0], r[1])
        else:
            sh.case(None)
    return sh.result()


def replay(case, scratch):
    logging.disable(logging.CRITICAL)
    sh = Shard({'scratch': scratch})
    if case.get('crafted') == 'extension-keys':
        guarded(sh, 'c04', case, lambda: crafted_extension_keys(sh, sh.fresh_dir('c04x'), case))
        return sh.violations
    guarded(sh, 'c04', case, lambda: run_case(sh, case['seed'], sh.fresh_dir('c04'), case))
    return sh.violations
